package main

import (
	"encoding/json"
	"fmt"
	"reflect"
	"runtime"
	"sort"
	"strconv"
	"strings"
	"time"

	yae "github.com/goghcrow/yae"
	"github.com/goghcrow/yae/conv"
	"github.com/goghcrow/yae/simrt"
	"github.com/goghcrow/yae/types"
	"github.com/goghcrow/yae/val"
)

// ---------------------------------------------------------------------------
// C07: Compile(e, A) once, then invoke the SAME Callable with B1..Bn, each a seeded
// mutation of A. Reference model: accept <=> every name of A is bound in Bi to a
// structurally equal type (own walk; object fields by name). On reject: error,
// nothing evaluated. On accept: value == pristine compile+invoke on Bi.

// VT is a typed value tree the harness materialises into Go host data.
type VT struct {
	K       string   `json:"k"` // num str bool time list map obj
	NumKind string   `json:"nk,omitempty"`
	Num     float64  `json:"n,omitempty"`
	Str     string   `json:"s,omitempty"`
	Bool    bool     `json:"b,omitempty"`
	Time    int64    `json:"t,omitempty"`
	Proto   *VT      `json:"proto,omitempty"` // element prototype (static Go type) for list / map values
	List    []*VT    `json:"list,omitempty"`
	KeyK    string   `json:"kk,omitempty"` // map key kind: str | num
	MapK    []*VT    `json:"mk,omitempty"`
	MapV    []*VT    `json:"mv,omitempty"`
	Fields  []*Field `json:"fields,omitempty"`
	Bad     string   `json:"bad,omitempty"` // unconvertible host data: nil | chan | mixed
	Arr     bool     `json:"arr,omitempty"` // list materialised as a Go array instead of a slice
	Dyn     bool     `json:"dyn,omitempty"` // non-empty list / map: the static Go element type is interface{} ([]interface{}, [N]interface{}, map[K]interface{}), so the Go type says nothing about the element type
}

type Field struct {
	Name  string `json:"name"`
	V     *VT    `json:"v"`
	Ptr   bool   `json:"ptr,omitempty"`   // Go field / value is a pointer
	Maybe bool   `json:"maybe,omitempty"` // tagged `yae:",maybe"` (implies Ptr)
	Nil   bool   `json:"nil,omitempty"`   // pointer is nil (V is then only the static prototype)
	NilC  bool   `json:"nil_c,omitempty"` // a slice / map typed struct field left nil: the library types it maybe[...] (value-dependent, like a nil pointer)
	Embed bool   `json:"embed,omitempty"` // a struct-typed, non-pointer field is an embedded (anonymous) Go field
	Tag   int    `json:"tag,omitempty"`   // spelling of the struct tag: 0 plain, 1 padded with spaces, 2 upper-case optional marker, 3 name left to the Go field name (capitalised names only)
}

// Env7 is an environment: ordered bindings + the carrier that materialises it.
type Env7 struct {
	Binds   []*Field `json:"binds"`
	Carrier string   `json:"carrier"` // map | struct | ptrstruct
	Raw     bool     `json:"raw,omitempty"` // hand the Callable a *val.Env built by conv.ValEnvOf
	NilEnv  bool     `json:"nil_env,omitempty"` // the environment itself is a typed nil pointer / nil map
	Funs    []*FunBind `json:"funs,omitempty"`  // names bound to FUNCTION values (raw environments only: put by hand after conversion)
}

func cloneVT(v interface{}, out interface{}) {
	b, _ := json.Marshal(v)
	json.Unmarshal(b, out)
}

// --- model type (canonical string; object fields sorted by name) -------------

func (v *VT) mtype() string {
	switch v.K {
	case "num", "str", "bool", "time", "stamp":
		return v.K
	case "list":
		return "list[" + v.Proto.mtype() + "]"
	case "map":
		return "map[" + v.KeyK + "," + v.Proto.mtype() + "]"
	case "obj":
		xs := make([]string, len(v.Fields))
		for i, f := range v.Fields {
			xs[i] = f.Name + ":" + f.mtype()
		}
		sort.Strings(xs)
		return "{" + strings.Join(xs, ",") + "}"
	}
	return "?" + v.K
}

func (f *Field) mtype() string {
	if f.Maybe || f.Nil || f.NilC {
		return "maybe[" + f.V.mtype() + "]"
	}
	return f.V.mtype()
}

func (v *VT) convertible() bool {
	if v.Bad != "" {
		return false
	}
	for i, e := range v.List {
		if !e.convertible() || i > 0 && e.mtype() != v.List[0].mtype() {
			return false // entries of one container must convert to one type
		}
	}
	for i, e := range v.MapV {
		if !e.convertible() || i > 0 && e.mtype() != v.MapV[0].mtype() {
			return false
		}
	}
	for _, f := range v.Fields {
		if !f.Nil && !f.V.convertible() {
			return false
		}
	}
	return true
}

// --- materialisation ---------------------------------------------------------

var numKinds = map[string]reflect.Type{
	"int": reflect.TypeOf(int(0)), "int8": reflect.TypeOf(int8(0)), "int32": reflect.TypeOf(int32(0)), "int64": reflect.TypeOf(int64(0)),
	"uint16": reflect.TypeOf(uint16(0)), "uint64": reflect.TypeOf(uint64(0)), "float32": reflect.TypeOf(float32(0)), "float64": reflect.TypeOf(float64(0)),
}
var numKindNames = []string{"int", "int8", "int32", "int64", "uint16", "uint64", "float32", "float64", "duration", "celsius", "count"}

// named host types: numeric ones are numbers like their underlying kind; a type DEFINED from
// time.Time is not time.Time (the library special-cases the exact type) but an object of
// time.Time's fields
type (
	Celsius float64
	Count   uint16
	Stamp   time.Time
)

func init() {
	numKinds["duration"] = reflect.TypeOf(time.Duration(0))
	numKinds["celsius"] = reflect.TypeOf(Celsius(0))
	numKinds["count"] = reflect.TypeOf(Count(0))
}

var stampLoc = time.FixedZone("X", 3600)

// goType: the Go type of the materialised value. dyn=false gives the STATIC reading (what the
// Go type of an empty or absent container of this prototype would be): Dyn is ignored all the way down.
func (v *VT) goType() reflect.Type { return v.goTypeD(true) }

func (v *VT) goTypeD(dyn bool) reflect.Type {
	switch v.K {
	case "num":
		if t, ok := numKinds[v.NumKind]; ok {
			return t
		}
		return numKinds["float64"]
	case "str":
		return reflect.TypeOf("")
	case "bool":
		return reflect.TypeOf(true)
	case "time":
		return reflect.TypeOf(time.Time{})
	case "stamp":
		return reflect.TypeOf(Stamp{})
	case "list":
		et := v.Proto.goTypeD(false)
		if dyn && v.Dyn && len(v.List) > 0 {
			et = ifaceType
		}
		if v.Arr {
			return reflect.ArrayOf(len(v.List), et)
		}
		return reflect.SliceOf(et)
	case "map":
		kt := reflect.TypeOf("")
		if v.KeyK == "num" {
			kt = reflect.TypeOf(int(0))
		}
		et := v.Proto.goTypeD(false)
		if dyn && v.Dyn && len(v.MapK) > 0 {
			et = ifaceType
		}
		return reflect.MapOf(kt, et)
	case "obj":
		return structTypeD(v.Fields, dyn)
	}
	panic("goType " + v.K)
}

var ifaceType = reflect.TypeOf((*interface{})(nil)).Elem()

func structType(fs []*Field) reflect.Type { return structTypeD(fs, true) }

func structTypeD(fs []*Field, dyn bool) reflect.Type {
	sf := make([]reflect.StructField, len(fs))
	for i, f := range fs {
		t := f.V.goTypeD(dyn && !f.Nil && !f.NilC)
		if f.Ptr || f.Maybe || f.Nil {
			t = reflect.PtrTo(t)
		}
		tag := `yae:"` + f.Name + `"`
		if f.Maybe {
			tag = `yae:"` + f.Name + `,maybe"`
		}
		switch f.Tag {
		case 1:
			tag = `yae:" ` + f.Name + ` "`
			if f.Maybe {
				tag = `yae:" ` + f.Name + ` , maybe "`
			}
		case 2:
			if f.Maybe {
				tag = `yae:"` + f.Name + `,MAYBE"`
			}
		}
		goName := fmt.Sprintf("F%d_%s", i, exportable(f.Name))
		if f.Tag == 3 && goNameable(f.Name) {
			// the tag leaves the name out: the Go field name is the name
			goName = f.Name
			switch {
			case f.Maybe:
				tag = `yae:",maybe"`
			case i%2 == 1:
				tag = `yae:""`
			default:
				tag = ""
			}
		}
		sf[i] = reflect.StructField{Name: goName, Type: t, Tag: reflect.StructTag(tag)}
		if f.Embed && t.Kind() == reflect.Struct && f.V.K == "obj" {
			sf[i].Anonymous = true
		}
	}
	return reflect.StructOf(sf)
}

func swapCase(s string) string {
	b := []byte(s)
	for i, c := range b {
		switch {
		case c >= 'a' && c <= 'z':
			b[i] = c - 32
		case c >= 'A' && c <= 'Z':
			b[i] = c + 32
		}
	}
	return string(b)
}

// goNameable: s can be an exported Go field name as it stands.
func goNameable(s string) bool {
	return s != "" && s[0] >= 'A' && s[0] <= 'Z' && exportable(s) == s
}

func exportable(s string) string {
	var b strings.Builder
	for _, r := range s {
		if r >= 'a' && r <= 'z' || r >= 'A' && r <= 'Z' || r >= '0' && r <= '9' || r == '_' {
			b.WriteRune(r)
		}
	}
	return b.String()
}

func (v *VT) goValue() reflect.Value { return v.goValueD(true) }

// goValueD: elements of an interface-typed container may be dynamic themselves; elements of a
// statically typed one have the static type of the prototype (dyn=false all the way down)
func (v *VT) goValueD(dyn bool) reflect.Value {
	t := v.goTypeD(dyn)
	ed := dyn && v.Dyn && (len(v.List) > 0 || len(v.MapK) > 0)
	rv := reflect.New(t).Elem()
	switch v.K {
	case "num":
		switch rv.Kind() {
		case reflect.Float32, reflect.Float64:
			rv.SetFloat(v.Num)
		case reflect.Uint16, reflect.Uint64:
			rv.SetUint(uint64(v.Num))
		default:
			rv.SetInt(int64(v.Num))
		}
	case "str":
		rv.SetString(v.Str)
	case "bool":
		rv.SetBool(v.Bool)
	case "time":
		rv.Set(reflect.ValueOf(time.Unix(v.Time, 0)))
	case "stamp":
		rv.Set(reflect.ValueOf(Stamp(time.Unix(v.Time, 0).In(stampLoc))))
	case "list":
		if v.Arr {
			for i, e := range v.List {
				rv.Index(i).Set(e.goValueD(ed))
			}
			break
		}
		s := reflect.MakeSlice(t, len(v.List), len(v.List))
		for i, e := range v.List {
			s.Index(i).Set(e.goValueD(ed))
		}
		rv.Set(s)
	case "map":
		m := reflect.MakeMap(t)
		for i, k := range v.MapK {
			var kv reflect.Value
			if v.KeyK == "num" {
				kv = reflect.ValueOf(int(k.Num))
			} else {
				kv = reflect.ValueOf(k.Str)
			}
			m.SetMapIndex(kv, v.MapV[i].goValueD(ed))
		}
		rv.Set(m)
	case "obj":
		fillStructD(rv, v.Fields, dyn)
	}
	return rv
}

func fillStruct(rv reflect.Value, fs []*Field) { fillStructD(rv, fs, true) }

func fillStructD(rv reflect.Value, fs []*Field, dyn bool) {
	for i, f := range fs {
		fv := rv.Field(i)
		if f.Nil || f.NilC {
			continue
		}
		val := f.V.goValueD(dyn)
		if f.Ptr || f.Maybe {
			p := reflect.New(val.Type())
			p.Elem().Set(val)
			fv.Set(p)
		} else {
			fv.Set(val)
		}
	}
}

func badValue(kind string) interface{} {
	switch kind {
	case "chan":
		return make(chan int)
	case "mixed":
		return []interface{}{1, "x"}
	}
	return nil
}

// FunBind: a name bound to a function value of the given signature (primitive kinds).
type FunBind struct {
	Name string   `json:"name"`
	P    []string `json:"p"`
	R    string   `json:"r"`
}

func (f *FunBind) sig() string { return "fun(" + strings.Join(f.P, ",") + ")" + f.R }

func primType(k string) *types.Type {
	switch k {
	case "str":
		return types.Str
	case "bool":
		return types.Bool
	}
	return types.Num
}

func (f *FunBind) ty() *types.Type {
	ps := make([]*types.Type, len(f.P))
	for i, k := range f.P {
		ps[i] = primType(k)
	}
	return types.Fun(f.Name, ps, primType(f.R))
}

func (f *FunBind) value() *val.Val {
	r := f.R
	return val.Fun(f.ty(), func(args ...*val.Val) *val.Val {
		switch r {
		case "str":
			return val.Str("f")
		case "bool":
			return val.True
		}
		return val.Num(7)
	})
}

func (e *Env7) isMap() bool { return e.Carrier == "map" || e.Carrier == "ptrmap" }

// host builds the Go value handed to Compile / the Callable.
func (e *Env7) host() interface{} {
	if e.NilEnv {
		// everything is missing: a typed nil pointer to the struct type / a nil map
		if e.isMap() {
			var m map[string]interface{}
			return m
		}
		return reflect.Zero(reflect.PtrTo(structType(e.Binds))).Interface()
	}
	switch e.Carrier {
	case "map", "ptrmap":
		m := map[string]interface{}{}
		for _, b := range e.Binds {
			if b.V.Bad != "" {
				m[b.Name] = badValue(b.V.Bad)
				continue
			}
			if b.Nil {
				m[b.Name] = reflect.Zero(reflect.PtrTo(b.V.goType())).Interface()
				continue
			}
			v := b.V.goValue()
			if b.Ptr {
				p := reflect.New(v.Type())
				p.Elem().Set(v)
				m[b.Name] = p.Interface()
			} else {
				m[b.Name] = v.Interface()
			}
		}
		if e.Carrier == "ptrmap" {
			return &m
		}
		return m
	default:
		// struct carriers cannot hold unconvertible kinds except through interface fields; keep those for map carriers
		t := structType(e.Binds)
		rv := reflect.New(t).Elem()
		fillStruct(rv, e.Binds)
		if e.Carrier == "ptrstruct" || e.Carrier == "ptrptrstruct" {
			p := reflect.New(t)
			p.Elem().Set(rv)
			if e.Carrier == "ptrptrstruct" {
				pp := reflect.New(p.Type())
				pp.Elem().Set(p)
				return pp.Interface()
			}
			return p.Interface()
		}
		return rv.Interface()
	}
}

// --- generation ----------------------------------------------------------------

type gen7 struct{ r *rng }

var fieldNames = []string{"a", "b", "c", "id", "name", "tags", "v", "w", "Age", "Score"}

func (g *gen7) prim() *VT {
	r := g.r
	switch r.intn(7) {
	case 0, 1, 2:
		return &VT{K: "num", NumKind: numKindNames[r.intn(len(numKindNames))], Num: float64(r.intn(100))}
	case 3, 4:
		return &VT{K: "str", Str: r.pick([]string{"x", "yy", "héllo", "", "q r"})}
	case 5:
		return &VT{K: "bool", Bool: r.chance(0.5)}
	default:
		if r.chance(0.25) {
			return &VT{K: "stamp", Time: 1500000000 + int64(r.intn(100000))}
		}
		return &VT{K: "time", Time: 1500000000 + int64(r.intn(100000))}
	}
}

func (g *gen7) value(d int, ptrFree bool) *VT {
	r := g.r
	if d <= 0 {
		return g.prim()
	}
	switch r.intn(8) {
	case 0, 1:
		proto := g.value(d-1, true)
		v := &VT{K: "list", Proto: proto, Dyn: r.chance(0.2)}
		n := 1 + r.intn(3)
		for i := 0; i < n; i++ {
			v.List = append(v.List, g.like(proto))
		}
		return v
	case 2:
		proto := g.value(d-1, true)
		v := &VT{K: "map", Proto: proto, KeyK: r.pick([]string{"str", "num"}), Dyn: r.chance(0.2)}
		n := 1 + r.intn(4)
		for i := 0; i < n; i++ {
			if v.KeyK == "num" {
				v.MapK = append(v.MapK, &VT{K: "num", Num: float64(i * 3)})
			} else {
				v.MapK = append(v.MapK, &VT{K: "str", Str: "k" + strconv.Itoa(i)})
			}
			v.MapV = append(v.MapV, g.like(proto))
		}
		return v
	case 3, 4, 5:
		v := &VT{K: "obj"}
		n := 1 + r.intn(4)
		perm := r.intn(len(fieldNames))
		for i := 0; i < n; i++ {
			f := &Field{Name: fieldNames[(perm+i)%len(fieldNames)], V: g.value(d-1, ptrFree)}
			if goNameable(f.Name) && r.chance(0.5) {
				f.Tag = 3
			}
			if f.V.K == "obj" && r.chance(0.4) {
				f.Embed = true
			}
			if !ptrFree && r.chance(0.3) {
				// pointers only around pointer-free payloads: keeps the static and the dynamic type equal
				f.V = g.value(0, true)
				switch r.intn(4) {
				case 0:
					f.Ptr = true
				case 1:
					f.Maybe, f.Ptr = true, true
				case 2:
					f.Maybe, f.Ptr, f.Nil = true, true, true
				default:
					f.Ptr, f.Nil = true, true
				}
			}
			v.Fields = append(v.Fields, f)
		}
		if r.chance(0.25) {
			// twin fields: two fields of one (composite) type, so that a mismatch can sit
			// at the SECOND occurrence of a type only
			var cands []*Field
			for _, f := range v.Fields {
				if !f.Ptr && !f.Maybe && !f.Nil && (f.V.K == "list" || f.V.K == "map" || f.V.K == "obj") {
					cands = append(cands, f)
				}
			}
			if len(cands) > 0 {
				src := cands[r.intn(len(cands))]
				tw := &Field{Name: fieldNames[(perm+n)%len(fieldNames)]}
				cloneVT(src.V, &tw.V)
				v.Fields = append(v.Fields, tw)
			}
		}
		return v
	default:
		return g.prim()
	}
}

// internTypes rebuilds a raw compile-time environment so that structurally equal composite
// types are ONE object shared by pointer (a host that builds its type environment by hand
// from a few type constants); equality of types is structural, so nothing may change.
func internTypes(te *types.Env) *types.Env {
	tab := map[string]*types.Type{}
	var walk func(t *types.Type) *types.Type
	walk = func(t *types.Type) *types.Type {
		var out *types.Type
		switch t.Kind {
		case types.KList:
			out = types.List(walk(t.List().El))
		case types.KMap:
			out = types.Map(walk(t.Map().Key), walk(t.Map().Val))
		case types.KMaybe:
			out = types.Maybe(walk(t.Maybe().Elem))
		case types.KObj:
			fs := make([]types.Field, len(t.Obj().Fields))
			for i, f := range t.Obj().Fields {
				fs[i] = types.Field{Name: f.Name, Val: walk(f.Val)}
			}
			out = types.Obj(fs)
		default:
			return t
		}
		k := renderType(out)
		if old, ok := tab[k]; ok {
			return old
		}
		tab[k] = out
		return out
	}
	ne := types.NewEnv()
	var names []string
	te.ForEach(func(k string, _ *types.Type) { names = append(names, k) })
	sort.Strings(names)
	for _, k := range names {
		ty, _ := te.Get(k)
		ne.Put(k, walk(ty))
	}
	return ne
}

// like: a value of the same model type and the same Go static type as proto, other contents.
func (g *gen7) like(p *VT) *VT {
	var v VT
	cloneVT(p, &v)
	g.scramble(&v)
	return &v
}

func (g *gen7) scramble(v *VT) {
	r := g.r
	switch v.K {
	case "num":
		v.Num = float64(r.intn(100))
	case "str":
		v.Str = r.pick([]string{"x", "yy", "héllo", "", "q r", "zz"})
	case "bool":
		v.Bool = r.chance(0.5)
	case "time", "stamp":
		v.Time = 1500000000 + int64(r.intn(100000))
	case "list":
		n := len(v.List)
		if r.chance(0.5) {
			n = 1 + r.intn(3)
		}
		v.List = nil
		for i := 0; i < n; i++ {
			v.List = append(v.List, g.like(v.Proto))
		}
	case "map":
		for _, e := range v.MapV {
			g.scramble(e)
		}
	case "obj":
		for _, f := range v.Fields {
			g.scramble(f.V)
		}
	}
}

func (g *gen7) env() *Env7 {
	r := g.r
	e := &Env7{Carrier: r.pick([]string{"map", "struct", "ptrstruct", "map", "struct", "ptrmap", "ptrptrstruct"})}
	n := 1 + r.intn(4)
	names := []string{"x", "xs", "X", "o", "ob", "l", "m", "p", "q", "x_1", "Y", "len", "inc"} // the last two coincide with a built-in and a registered function
	off := r.intn(len(names))
	for i := 0; i < n; i++ {
		b := &Field{Name: names[(off+i)%len(names)], V: g.value(1+r.intn(3), false)}
		if goNameable(b.Name) && r.chance(0.5) {
			b.Tag = 3
		}
		if b.V.K == "obj" {
			// fields of a top-level object (a struct nested one level down) as Go ARRAYS, often
			// with interface-typed elements: a struct without any nil-able field whose type
			// still depends on the value
			for _, f := range b.V.Fields {
				if f.V.K == "list" && len(f.V.List) > 0 && !f.Ptr && !f.Maybe && !f.Nil && !f.NilC && f.V.Bad == "" && r.chance(0.3) {
					f.V.Arr = true
					f.V.Dyn = r.chance(0.6)
				}
			}
		}
		if b.V.K == "obj" && r.chance(0.3) {
			b.Embed = true
		}
		if b.V.K == "obj" && r.chance(0.3) {
			b.Ptr = true
		}
		e.Binds = append(e.Binds, b)
	}
	return e
}

// --- programs over an environment ------------------------------------------------

func litOf(v *VT) string {
	switch v.K {
	case "num":
		return "0"
	case "str":
		return "\"d\""
	case "bool":
		return "false"
	case "time":
		return "'2001-02-03 04:05:06 UTC'"
	}
	return ""
}

func accessExprs(path string, v *VT, out *[]string, d int) {
	if d > 4 {
		return
	}
	switch v.K {
	case "num":
		*out = append(*out, path, "tr("+path+") + 1", path+" * 2 > 10")
	case "str":
		*out = append(*out, path+" + \"!\"", "len(tr("+path+"))")
	case "bool":
		*out = append(*out, "!"+path, "tr("+path+")")
	case "time":
		*out = append(*out, path+" > '2000-01-01 00:00:00 UTC'", "tr("+path+")")
	case "stamp":
		*out = append(*out, "tr("+path+")", "string(tr("+path+").loc.name)")
	case "list":
		*out = append(*out, "len("+path+")", "string("+path+")", "tr("+path+")")
		if l := litOf(v.Proto); l != "" {
			*out = append(*out, "get("+path+", 0, "+l+")")
		}
		if len(v.List) > 0 {
			accessExprs(path+"[0]", v.List[0], out, d+1)
		}
	case "map":
		*out = append(*out, "len("+path+")", "string("+path+")")
		if len(v.MapK) > 0 {
			k := strconv.Quote(v.MapK[0].Str)
			if v.KeyK == "num" {
				k = fmtNum(v.MapK[0].Num)
			}
			*out = append(*out, "isset("+path+", "+k+")")
			if l := litOf(v.Proto); l != "" {
				*out = append(*out, "get("+path+", "+k+", "+l+")")
			}
			accessExprs(path+"["+k+"]", v.MapV[0], out, d+1)
		}
	case "obj":
		*out = append(*out, "string("+path+")", "tr("+path+")")
		for _, f := range v.Fields {
			p := path + "." + f.Name
			if f.Maybe || f.Nil {
				if l := litOf(f.V); l != "" {
					*out = append(*out, "get("+p+", "+l+")")
				}
				continue
			}
			accessExprs(p, f.V, out, d+1)
		}
	}
}

func genProg7(r *rng, e *Env7) string {
	var xs []string
	for _, b := range e.Binds {
		if b.V.Bad != "" || b.Nil {
			continue
		}
		accessExprs(b.Name, b.V, &xs, 0)
	}
	if len(xs) == 0 {
		return "1"
	}
	n := 1 + r.intn(4)
	parts := make([]string, n)
	for i := range parts {
		parts[i] = fmt.Sprintf("r%d: %s", i, xs[r.intn(len(xs))])
	}
	for _, f := range e.Funs {
		if r.chance(0.6) {
			if f.Name == "fn" && r.chance(0.5) {
				parts = append(parts, "rf"+f.Name+": [fn][0](1) + 0") // dynamic call of the function value
			} else {
				parts = append(parts, "rf"+f.Name+": len(["+f.Name+"])")
			}
		}
	}
	if r.chance(0.3) {
		// sub-expressions that do not depend on the environment at all: a rejected call
		// must not have evaluated them either
		parts = append(parts, "rk: "+r.pick([]string{"tr(7)", "first([tr(\"lit\")], \"d\")", "when(tr(true), tr(1), tr(2))", "inc(tr(41))"}))
	}
	return "{" + strings.Join(parts, ", ") + "}"
}

// --- mutations ---------------------------------------------------------------------

var mutKinds = []string{"same", "same", "contents", "extra", "numkind", "ptrflip", "carrier", "reorder", "reorder", "reorder-top",
	"maybe-flip", "retype-maybe", "tagstyle", "embed", "time-named", "near-miss", "nil-env", "raw", "array", "empty", "empty-retype", "hetero", "hetero", "drop", "retype-top", "retype-deep", "field-add", "field-remove", "field-rename", "nil-flip", "bad"}

// collect object nodes (with their depth) below the bindings
func objNodes(e *Env7) []*VT {
	var out []*VT
	var walk func(v *VT)
	walk = func(v *VT) {
		if v == nil {
			return
		}
		if v.K == "obj" {
			out = append(out, v)
		}
		for _, x := range v.List {
			walk(x)
		}
		for _, x := range v.MapV {
			walk(x)
		}
		for _, f := range v.Fields {
			walk(f.V)
		}
		if v.K == "list" || v.K == "map" {
			walk(v.Proto)
		}
	}
	for _, b := range e.Binds {
		walk(b.V)
	}
	return out
}

// applyAll applies f to a node and to every node that must share its Go static
// type (list / map elements and their prototype), so that the host data stays buildable.
func mutateShape(e *Env7, r *rng, f func(v *VT) bool) bool {
	// choose a top-level binding, then walk down randomly; containers are mutated uniformly
	if len(e.Binds) == 0 {
		return false
	}
	b := e.Binds[r.intn(len(e.Binds))]
	if b.Nil || b.V.Bad != "" {
		return false
	}
	return mutateUnder(b.V, r, f)
}

func mutateUnder(v *VT, r *rng, f func(v *VT) bool) bool {
	switch v.K {
	case "list", "map":
		if r.chance(0.7) {
			// descend: apply the same mutation to prototype and all elements
			seed := r.u64()
			ok := mutateUnder(v.Proto, newRng(seed), f)
			for _, x := range v.List {
				mutateUnder(x, newRng(seed), f)
			}
			for _, x := range v.MapV {
				mutateUnder(x, newRng(seed), f)
			}
			return ok
		}
		return f(v)
	case "obj":
		if len(v.Fields) > 0 && r.chance(0.6) {
			fl := v.Fields[r.intn(len(v.Fields))]
			if !fl.Nil && !fl.Ptr && !fl.Maybe {
				return mutateUnder(fl.V, r, f)
			}
		}
		return f(v)
	}
	return f(v)
}

func (g *gen7) mutate(a *Env7, kind string) *Env7 {
	r := g.r
	var e Env7
	cloneVT(a, &e)
	switch kind {
	case "same":
	case "contents":
		for _, b := range e.Binds {
			g.scramble(b.V)
		}
	case "extra":
		name := "extra" + strconv.Itoa(r.intn(3))
		for _, b := range e.Binds {
			if b.Name == name {
				name += "x"
			}
		}
		e.Binds = append(e.Binds, &Field{Name: name, V: g.value(1, false)})
	case "numkind":
		nk := numKindNames[r.intn(len(numKindNames))]
		mutateShape(&e, r, func(v *VT) bool {
			if v.K == "num" {
				v.NumKind = nk
				return true
			}
			return false
		})
	case "ptrflip":
		for _, b := range e.Binds {
			if b.V.K == "obj" && !b.Nil {
				b.Ptr = !b.Ptr
			}
		}
	case "carrier":
		e.Carrier = r.pick([]string{"map", "struct", "ptrstruct", "ptrmap", "ptrptrstruct"})
	case "raw":
		e.Raw = true
	case "reorder":
		mutateShape(&e, r, func(v *VT) bool {
			if v.K == "obj" && len(v.Fields) > 1 {
				// deterministic rotation so that prototype and elements stay aligned
				v.Fields = append(v.Fields[1:], v.Fields[0])
				return true
			}
			return false
		})
	case "reorder-top":
		if len(e.Binds) > 1 {
			e.Binds = append(e.Binds[1:], e.Binds[0])
		}
	case "maybe-flip":
		mutateShape(&e, r, func(v *VT) bool {
			if v.K != "obj" {
				return false
			}
			for _, f := range v.Fields {
				if f.Maybe {
					f.Nil = !f.Nil
					return true
				}
			}
			return false
		})
	case "nil-env":
		e.NilEnv = true
	case "near-miss":
		// a compile-time name is missing, a name that differs from it only in case or by
		// surrounding blanks is there instead (same value): still missing
		if len(e.Binds) > 0 {
			b := e.Binds[r.intn(len(e.Binds))]
			var nm string
			k := 3
			if !e.isMap() {
				k = 1 // struct tags are trimmed by the library: only the case variant is another name
			}
			switch r.intn(k) {
			case 0:
				nm = swapCase(b.Name)
			case 1:
				nm = " " + b.Name
			default:
				nm = b.Name + " "
			}
			clash := nm == b.Name
			for _, o := range e.Binds {
				if o.Name == nm {
					clash = true
				}
			}
			if !clash {
				b.Name = nm
				b.Tag = 0
			}
		}
	case "time-named":
		// time.Time <-> a type defined from it: different types
		mutateShape(&e, r, func(v *VT) bool {
			switch v.K {
			case "time":
				v.K = "stamp"
			case "stamp":
				v.K = "time"
			default:
				return false
			}
			return true
		})
	case "embed":
		// struct-typed fields become embedded (anonymous) Go fields or stop being so: the
		// field list, names and types are the same
		for _, b := range e.Binds {
			b.Embed = !b.Embed
		}
		mutateShape(&e, r, func(v *VT) bool {
			if v.K != "obj" {
				return false
			}
			for _, f := range v.Fields {
				f.Embed = !f.Embed
			}
			return true
		})
	case "tagstyle":
		// another spelling of the same struct tags (padding, case of the optional marker):
		// the names and optional markers they denote are unchanged
		st := 1 + r.intn(3)
		for _, b := range e.Binds {
			b.Tag = st
		}
		mutateShape(&e, r, func(v *VT) bool {
			if v.K != "obj" {
				return false
			}
			for _, f := range v.Fields {
				f.Tag = st
			}
			return true
		})
	case "retype-maybe":
		// the payload type of an optional (tagged, nil or not) changes: maybe[num] vs maybe[str]
		mutateShape(&e, r, func(v *VT) bool {
			if v.K != "obj" {
				return false
			}
			for _, f := range v.Fields {
				if f.Maybe {
					switch f.V.K {
					case "num":
						f.V = &VT{K: "str", Str: "m"}
					default:
						f.V = &VT{K: "num", NumKind: "int", Num: 3}
					}
					return true
				}
			}
			return false
		})
	case "drop":
		if len(e.Binds) > 0 {
			i := r.intn(len(e.Binds))
			e.Binds = append(e.Binds[:i], e.Binds[i+1:]...)
		}
	case "retype-top":
		if len(e.Binds) > 0 {
			b := e.Binds[r.intn(len(e.Binds))]
			old := b.mtype()
			for i := 0; i < 5; i++ {
				b.V, b.Ptr, b.Nil, b.Maybe = g.value(r.intn(2), false), false, false, false
				if b.mtype() != old {
					break
				}
			}
		}
	case "retype-deep":
		mutateShape(&e, r, func(v *VT) bool {
			switch v.K {
			case "num":
				*v = VT{K: "str", Str: "n"}
			case "str":
				*v = VT{K: "num", NumKind: "int", Num: 1}
			case "bool":
				*v = VT{K: "str", Str: "b"}
			case "time":
				*v = VT{K: "num", NumKind: "int64", Num: 5}
			case "stamp":
				*v = VT{K: "str", Str: "s"}
			default:
				return false
			}
			return true
		})
	case "field-add":
		mutateShape(&e, r, func(v *VT) bool {
			if v.K == "obj" {
				v.Fields = append(v.Fields, &Field{Name: "zz_added", V: &VT{K: "num", NumKind: "int", Num: 1}})
				return true
			}
			return false
		})
	case "field-remove":
		mutateShape(&e, r, func(v *VT) bool {
			if v.K == "obj" && len(v.Fields) > 0 {
				v.Fields = v.Fields[1:]
				return true
			}
			return false
		})
	case "field-rename":
		mutateShape(&e, r, func(v *VT) bool {
			if v.K == "obj" && len(v.Fields) > 0 {
				v.Fields[0].Name = v.Fields[0].Name + "_renamed"
				return true
			}
			return false
		})
	case "nil-flip":
		mutateShape(&e, r, func(v *VT) bool {
			if v.K != "obj" {
				return false
			}
			for _, f := range v.Fields {
				if f.Ptr && !f.Maybe {
					f.Nil = !f.Nil
					return true
				}
			}
			return false
		})
	case "empty", "empty-retype":
		// an empty list / map keeps its static element type (conforming); with another
		// element type it is a different type even though it holds no element
		retype := kind == "empty-retype"
		mutateShape(&e, r, func(v *VT) bool {
			if v.K != "list" && v.K != "map" {
				return false
			}
			v.List, v.MapK, v.MapV = nil, nil, nil
			if retype {
				switch v.Proto.K {
				case "num":
					v.Proto = &VT{K: "str", Str: "e"}
				case "str", "bool", "time", "stamp":
					v.Proto = &VT{K: "num", NumKind: "int", Num: 1}
				default:
					v.Proto = &VT{K: "bool"}
				}
			}
			return true
		})
	case "array":
		// a top-level list bound as a Go array instead of a slice (arrays nested in
		// containers would change the containers' static element type)
		for _, b := range e.Binds {
			if b.V.K == "list" && len(b.V.List) > 0 && !b.Nil && b.V.Bad == "" {
				b.V.Arr = !b.V.Arr
			}
		}
	case "hetero":
		// a container with a concrete Go element type whose entries convert to different
		// yae types (an untagged pointer field that is nil in some entries only)
		mkEntry := func(nilp bool, n int) *VT {
			return &VT{K: "obj", Fields: []*Field{
				{Name: "id", V: &VT{K: "num", NumKind: "int", Num: float64(n)}},
				{Name: "p", V: &VT{K: "num", NumKind: "int", Num: float64(n + 1)}, Ptr: true, Nil: nilp},
			}}
		}
		if r.chance(0.35) {
			// ... or a slice-typed field that is nil in some entries only (no pointer, no
			// interface anywhere in the Go type)
			mkEntry = func(nilc bool, n int) *VT {
				items := &VT{K: "list", Proto: &VT{K: "num", NumKind: "int"}, List: []*VT{{K: "num", NumKind: "int", Num: float64(n)}}}
				return &VT{K: "obj", Fields: []*Field{
					{Name: "id", V: &VT{K: "num", NumKind: "int", Num: float64(n)}},
					{Name: "items", V: items, NilC: nilc},
				}}
			}
		}
		cont := &VT{K: "map", KeyK: "str", Proto: mkEntry(false, 0)}
		first := r.chance(0.5)
		for i := 0; i < 2+r.intn(3); i++ {
			cont.MapK = append(cont.MapK, &VT{K: "str", Str: "h" + strconv.Itoa(i)})
			cont.MapV = append(cont.MapV, mkEntry((i%2 == 0) == first, i))
		}
		if r.chance(0.3) {
			cont = &VT{K: "list", Proto: cont.Proto, List: cont.MapV}
		}
		if len(e.Binds) > 0 && r.chance(0.5) {
			b := e.Binds[r.intn(len(e.Binds))]
			b.V, b.Ptr, b.Nil, b.Maybe = cont, false, false, false
		} else {
			e.Binds = append(e.Binds, &Field{Name: "hx", V: cont})
		}
	case "bad":
		e.Carrier = "map"
		if len(e.Binds) > 0 {
			b := e.Binds[r.intn(len(e.Binds))]
			b.V = &VT{K: "num", Bad: r.pick([]string{"nil", "chan", "mixed"})}
			b.Ptr, b.Nil, b.Maybe = false, false, false
		}
	}
	for _, b := range e.Binds {
		if b.V.Bad != "" {
			e.Carrier = "map" // only an interface-typed slot can hold the unconvertible kinds
		}
	}
	return &e
}

// model: does B conform to A?  (and is B convertible at all)
func conforms(a, b *Env7) (accept bool, why string) {
	if b.NilEnv {
		return false, "the environment is a nil pointer / nil map: every name is missing"
	}
	for _, x := range b.Binds {
		if !x.Nil && !x.V.convertible() {
			return false, "unconvertible host data in " + x.Name
		}
		if x.Nil && b.isMap() {
			return false, "nil pointer at top level of a map environment" // conv cannot type a nil interface payload... (typed nil pointer)
		}
	}
	// the name of a struct field is its tag with surrounding blanks removed (documented tag
	// syntax `yae:"name, maybe"`); a map key is the name as it stands
	eff := func(e *Env7, n string) string {
		if !e.isMap() {
			return strings.TrimSpace(n)
		}
		return n
	}
	bm := map[string]*Field{}
	for _, x := range b.Binds {
		bm[eff(b, x.Name)] = x
	}
	for _, fa := range a.Funs {
		var fb *FunBind
		if b.Raw {
			for _, y := range b.Funs {
				if y.Name == fa.Name {
					fb = y
				}
			}
		}
		if fb == nil {
			return false, "name " + fa.Name + " (a function) missing"
		}
		if fa.sig() != fb.sig() {
			return false, fmt.Sprintf("name %s: %s vs %s", fa.Name, fa.sig(), fb.sig())
		}
	}
	for _, x := range a.Binds {
		y, ok := bm[eff(a, x.Name)]
		if !ok {
			return false, "name " + x.Name + " missing"
		}
		if x.mtype() != y.mtype() {
			return false, fmt.Sprintf("name %s: %s vs %s", x.Name, x.mtype(), y.mtype())
		}
	}
	return true, ""
}

// ---------------------------------------------------------------------------

type Step7 struct {
	Muts []string `json:"muts"`
	Env  *Env7    `json:"env"` // what the model judges (for again / rawput: the object's contents at invocation time)
	// Again: invoke with the very same host object as the previous step (a retry).
	Again bool `json:"again,omitempty"`
	// RawPut: the previous step's raw *val.Env object is modified in place (Put of this
	// binding) and passed again.
	RawPut *Field `json:"raw_put,omitempty"`
	// RawBot: the environment is passed as a raw *val.Env in which this list / map binding
	// holds the value of the empty literal ([] : list[bottom], [:] : map[bottom,bottom]),
	// as a host program gets it when it feeds the result of one expression into another.
	RawBot string `json:"raw_bot,omitempty"`
}

type Hist7 struct {
	Spec  EngineSpec   `json:"spec"`
	A     *Env7        `json:"a"`
	Src   string       `json:"src"`
	Steps []*Step7     `json:"steps"`
	Reuse bool         `json:"reuse"` // reuse the previous step's host object when the step is "same"
	RawA  bool         `json:"raw_a,omitempty"` // compile against a raw *types.Env (conv.TypeEnvOf(A))
	Share bool         `json:"share,omitempty"` // RawA: structurally equal composite types of the compile-time environment are one shared object
	// Recomp (RawA, no Layer): before step Recomp the compile-time *types.Env object itself gets one
	// more name (zz9: num) and a second Callable is compiled against that same object; from
	// then on the steps invoke the second Callable and conformity is judged against A + zz9
	Recomp int          `json:"recomp,omitempty"`
	Layer int          `json:"layer,omitempty"` // RawA: the first Layer names (sorted) live in a BASE level the compile-time environment is Derive()d from
	Sim   simrt.Config `json:"sim"`
}

func genHist7(r *rng) *Hist7 {
	g := &gen7{r}
	h := &Hist7{Spec: EngineSpec{pickBackend(r), true, 0, false}}
	h.A = g.env()
	withFuns := r.chance(0.08)
	if withFuns {
		// names bound to function values: only hand-built raw environments can hold them
		h.A.Funs = []*FunBind{{Name: "fn", P: []string{"num"}, R: "num"}}
		if r.chance(0.5) {
			h.A.Funs = append(h.A.Funs, &FunBind{Name: "gn", P: []string{"str", "num"}, R: r.pick([]string{"str", "bool"})})
		}
	}
	h.Src = genProg7(r, h.A)
	n := 2 + r.intn(10)
	for i := 0; i < n; i++ {
		st := &Step7{}
		cur := h.A
		k := 1
		if r.chance(0.3) {
			k = 2
		}
		for j := 0; j < k; j++ {
			m := mutKinds[r.intn(len(mutKinds))]
			st.Muts = append(st.Muts, m)
			cur = g.mutate(cur, m)
		}
		if withFuns {
			var ne Env7
			cloneVT(cur, &ne)
			ne.Raw = true
			if r.chance(0.6) {
				st.Muts = append(st.Muts, "fun-sig")
				f := ne.Funs[r.intn(len(ne.Funs))]
				switch r.intn(4) {
				case 0:
					f.R = map[string]string{"num": "str", "str": "num", "bool": "num"}[f.R]
				case 1:
					f.P[0] = map[string]string{"num": "str", "str": "num", "bool": "num"}[f.P[0]]
				case 2:
					f.P = append(f.P, "num")
				default:
					f.P = f.P[:len(f.P)-1]
				}
			}
			cur = &ne
		}
		st.Env = cur
		h.Steps = append(h.Steps, st)
		if withFuns {
			continue // the follow-ups below rebuild environments without the function bindings
		}
		// at most ONE follow-up per step (they refer to "the previous step's object")
		// a raw environment holding the value of an empty literal for a list / map binding
		if r.chance(0.12) {
			followed := false
			var cands []string
			for _, b := range h.A.Binds {
				if (b.V.K == "list" || b.V.K == "map") && !b.Nil && b.V.Bad == "" {
					cands = append(cands, b.Name)
				}
			}
			if len(cands) > 0 {
				var ne *Env7
				cloneVT(h.A, &ne)
				ne.Raw = true
				h.Steps = append(h.Steps, &Step7{Muts: []string{"rawbot"}, Env: ne, RawBot: cands[r.intn(len(cands))]})
				followed = true
			}
			if followed {
				continue
			}
		}
		// retry with the same object / modify the same raw object in place
		if r.chance(0.25) {
			again := &Step7{Muts: []string{"again"}, Again: true}
			cloneVT(cur, &again.Env)
			h.Steps = append(h.Steps, again)
		} else if cur.Raw && len(cur.Binds) > 0 && r.chance(0.5) {
			var ne *Env7
			cloneVT(cur, &ne)
			b := ne.Binds[r.intn(len(ne.Binds))]
			old := b.mtype()
			for k := 0; k < 5; k++ {
				b.V, b.Ptr, b.Nil, b.Maybe = g.value(r.intn(2), true), false, false, false
				if b.mtype() != old {
					break
				}
			}
			var put *Field
			cloneVT(b, &put)
			h.Steps = append(h.Steps, &Step7{Muts: []string{"rawput"}, Env: ne, RawPut: put})
		}
	}
	h.Reuse = r.chance(0.5)
	h.RawA = r.chance(0.3) || withFuns
	h.Share = h.RawA && r.chance(0.5)
	if h.RawA && r.chance(0.2) {
		// a layered compile-time environment: names bound in an outer level are known at
		// compile time like any other (the pinned library refuses such an environment, then
		// there is nothing to check; if it is ever accepted, its outer names must be checked too)
		h.Layer = 1 + r.intn(3)
	}
	if h.RawA && h.Layer == 0 && !withFuns && len(h.Steps) >= 2 && r.chance(0.35) {
		k := 1 + r.intn(len(h.Steps)-1)
		if r.chance(0.5) {
			for j := k; j < len(h.Steps); j++ {
				if h.Steps[j].Again {
					k = j
					break
				}
			}
		}
		h.Recomp = k
		with := false
		for i := k; i < len(h.Steps); i++ {
			st := h.Steps[i]
			if st.Again || st.RawPut != nil {
				// the previous step's object: it has the name iff that object had it
				if i == k {
					with = false
				}
			} else {
				with = r.chance(0.5)
			}
			if with {
				var ne *Env7
				cloneVT(st.Env, &ne)
				ne.Binds = append(ne.Binds, &Field{Name: "zz9", V: &VT{K: "num", Num: 7}})
				st.Env = ne
			}
		}
	}
	h.Sim = simrt.Config{Seed: r.u64() | 1, ClockSeam: true, ClockBase: 1700000000, MaxSteps: 20_000_000,
		MapMode: []int{simrt.MapShuffle, simrt.MapReverse, simrt.MapRotate, simrt.MapSorted}[r.intn(4)], MapParam: 1 + r.intn(4)}
	if r.chance(0.3) {
		est := uint64(len(h.Steps)) * 1500
		for i := 0; i < 1+r.intn(3); i++ {
			h.Sim.Faults = append(h.Sim.Faults, simrt.Fault{Step: 1 + r.u64()%est, Kind: "gc"})
		}
		sortFaults(h.Sim.Faults)
		h.Sim.GCAlloc = 64
	}
	if r.chance(0.4) {
		h.Sim.Knobs = map[string]int{"vm.stackInit": []int{1, 2, 42}[r.intn(3)], "vm.stackGrow": []int{1, 500}[r.intn(2)]}
	}
	return h
}

type hist7Result struct {
	Viol     *Violation
	Sim      simrt.Result
	Accepts  int
	Rejects  int
	Shape    string // expression shape + mutation kind sequence (distinctness measure)
	NonIdent bool
	Skipped  bool
}

func hostOf(e *Env7) (v interface{}, err error) {
	defer func() {
		if r := recover(); r != nil {
			err = fmt.Errorf("materialise: %v", r)
		}
	}()
	v = e.host()
	if e.Raw {
		re, cerr := conv.ValEnvOf(v)
		if cerr == nil {
			for _, f := range e.Funs {
				re.Put(f.Name, f.value())
			}
			v = re
		}
	}
	return v, nil
}

func runHist7(h *Hist7, x *evalCtx) hist7Result {
	var res hist7Result
	var ms []string
	for _, st := range h.Steps {
		ms = append(ms, strings.Join(st.Muts, "+"))
		for _, m := range st.Muts {
			if m != "same" {
				res.NonIdent = true
			}
		}
	}
	res.Shape = shapeOf(h.Src) + "|" + strings.Join(ms, ",")

	hostA, err := hostOf(h.A)
	if err != nil {
		harnessFatal("c07: cannot build A: %v", err)
	}
	type stepOut struct {
		o      obs
		accept bool
		why    string
		ref    obs
		refOK  bool
	}
	outs := make([]stepOut, len(h.Steps))
	var compileErr error
	recompAt := -1 // steps from this index on were run with the second Callable (-1: none)
	stopAt := len(h.Steps)
	body := func() {
		eng := buildEngine(h.Spec, x.recFn)
		var c yae.Callable
		var teObj *types.Env
		curA, curSrc := h.A, h.Src
		func() {
			defer func() {
				if r := recover(); r != nil {
					if simrt.IsAbort(r) {
						panic(r)
					}
					compileErr = fmt.Errorf("panic: %v", r)
				}
			}()
			var compileEnv interface{} = hostA
			if h.RawA {
				if te, err := conv.TypeEnvOf(hostA); err == nil {
					if h.Share {
						te = internTypes(te)
					}
					for _, f := range h.A.Funs {
						te.Put(f.Name, f.ty())
					}
					compileEnv = te
					teObj = te
					if h.Layer > 0 {
						var names []string
						te.ForEach(func(k string, _ *types.Type) { names = append(names, k) })
						sort.Strings(names)
						base := types.NewEnv()
						top := base.Derive()
						for i, k := range names {
							ty, _ := te.Get(k)
							if i < h.Layer {
								base.Put(k, ty)
							} else {
								top.Put(k, ty)
							}
						}
						compileEnv = top
					}
				}
			}
			c, compileErr = eng.Compile(h.Src, compileEnv)
		}()
		if compileErr != nil {
			return
		}
		var prevHost interface{}
		for i, st := range h.Steps {
			if h.Recomp > 0 && i == h.Recomp && teObj != nil && h.Layer == 0 {
				// the host extends the compile-time environment object it already has and
				// compiles a second expression against it
				teObj.Put("zz9", types.Num)
				src2 := "if(zz9 > 0, (" + h.Src + "), (" + h.Src + "))"
				var c2 yae.Callable
				var cerr error
				func() {
					defer func() {
						if r := recover(); r != nil {
							if simrt.IsAbort(r) {
								panic(r)
							}
							cerr = fmt.Errorf("panic: %v", r)
						}
					}()
					c2, cerr = eng.Compile(src2, teObj)
				}()
				if cerr != nil || c2 == nil {
					stopAt = i // nothing to check from here on
					return
				}
				c, curSrc = c2, src2
				var a2 *Env7
				cloneVT(h.A, &a2)
				a2.Binds = append(a2.Binds, &Field{Name: "zz9", V: &VT{K: "num", Num: 7}})
				curA = a2
				recompAt = i
			}
			var hostB interface{}
			var err error
			switch {
			case st.Again && prevHost != nil:
				hostB = prevHost
			case st.RawPut != nil && prevHost != nil:
				if re, ok := prevHost.(*val.Env); ok {
					if pv, perr := conv.ValOf(st.RawPut.V.goValue().Interface()); perr == nil {
						re.Put(st.RawPut.Name, pv)
					}
					hostB = re
				} else {
					hostB, err = hostOf(st.Env)
				}
			default:
				hostB, err = hostOf(st.Env)
			}
			if err != nil {
				harnessFatal("c07: cannot build B%d: %v", i, err)
			}
			if st.RawBot != "" {
				if re, ok := hostB.(*val.Env); ok {
					if old, ok := re.Get(st.RawBot); ok && old.Type.Kind == types.KMap {
						re.Put(st.RawBot, val.Map(types.Map(types.Bottom, types.Bottom).Map()))
					} else {
						re.Put(st.RawBot, val.List(types.List(types.Bottom).List(), 0))
					}
				}
			}
			prevHost = hostB
			outs[i].accept, outs[i].why = conforms(curA, st.Env)
			if st.RawBot != "" {
				outs[i].accept, outs[i].why = false, "binding "+st.RawBot+" holds an empty-literal value (element type bottom), not the compiled element type"
			}
			outs[i].o = x.observe(false, func(o *obs) {
				v, _, err := callWith(h.Spec, c, hostB)
				valObs(o, v, err)
			})
			simrt.Mix(outs[i].o.Class)
			if outs[i].accept {
				// pristine: fresh engine compiled against Bi itself, invoked with a fresh Bi
				hostB1, _ := hostOf(st.Env)
				hostB2, _ := hostOf(st.Env)
				var pc yae.Callable
				x.observe(false, func(o *obs) {
					pe := buildEngine(h.Spec, x.recFn)
					var err error
					pc, err = pe.Compile(curSrc, pristineCompileHost(st.Env, hostB1))
					if err != nil {
						pc = nil
					}
				})
				if pc != nil {
					outs[i].refOK = true
					outs[i].ref = x.observe(false, func(o *obs) {
						v, _, err := callWith(h.Spec, pc, hostB2)
						valObs(o, v, err)
					})
				}
			}
		}
	}
	res.Sim = simrt.Run(h.Sim, body)
	if p := res.Sim.TaskPanics[0]; p != nil {
		if simrt.IsAbort(p) {
			res.Viol = &Violation{"stall", "c07:stall", "step cap exceeded"}
			return res
		}
		harnessFatal("c07: panic escaped: %v", p)
	}
	if compileErr != nil {
		res.Skipped = true // the generated program does not compile against A: nothing to check
		return res
	}
	for i, st := range h.Steps {
		if i >= stopAt {
			break
		}
		so := outs[i]
		mut := dominant(st.Muts)
		if recompAt >= 0 && i >= recompAt {
			mut = "recomp-" + mut
		}
		if !so.accept {
			res.Rejects++
			switch {
			case so.o.Class == "ok":
				res.Viol = &Violation{"accepted-mismatch", "c07:accepted-nonconforming:" + mut,
					fmt.Sprintf("step %d (%s): the Callable compiled against A ran on a non-conforming environment (%s) and returned %s\n src: %s", i, mut, so.why, clip(so.o.Value), h.Src)}
			case so.o.Class == "panic":
				res.Viol = &Violation{"reject-panic", "c07:reject-panicked:" + mut,
					fmt.Sprintf("step %d (%s): non-conforming environment (%s) made the Callable panic instead of returning an error\n panic: %s\n src: %s", i, mut, so.why, so.o.Panic, h.Src)}
			case so.o.Calls != "" || so.o.Stdout != "":
				res.Viol = &Violation{"reject-evaluated", "c07:evaluated-on-reject:" + mut,
					fmt.Sprintf("step %d (%s): rejected (%s) but host functions ran: calls=%s stdout=%q", i, mut, so.why, clip(so.o.Calls), clip(so.o.Stdout))}
			}
		} else {
			res.Accepts++
			switch {
			case so.o.Class == "err" && (!so.refOK || so.ref.Class != "err"):
				res.Viol = &Violation{"rejected-conforming", "c07:rejected-conforming:" + mut,
					fmt.Sprintf("step %d (%s): environment with equal types was rejected (or failed) although a fresh compile+invoke on it gives %s\n src: %s", i, mut, so.ref, h.Src)}
			case so.refOK && (so.o.Class != so.ref.Class || so.o.Value != so.ref.Value || so.o.Calls != so.ref.Calls):
				res.Viol = &Violation{"wrong-value", "c07:accepted-wrong-result:" + mut,
					fmt.Sprintf("step %d (%s): accepted, but the result differs from a fresh compile+invoke on the same environment\n src: %s\n callable: %s\n pristine: %s", i, mut, h.Src, so.o, so.ref)}
			}
		}
		if res.Viol != nil {
			return res
		}
	}
	return res
}

// dominant names the mutation a violation is attributed to in its signature.
var mutPriority = []string{"fun-sig", "rawbot", "rawput", "again", "bad", "nil-env", "hetero", "near-miss", "time-named", "empty-retype", "retype-maybe", "drop", "retype-top", "retype-deep", "field-add", "field-remove", "field-rename", "nil-flip",
	"reorder", "reorder-top", "raw", "array", "empty", "embed", "tagstyle", "carrier", "ptrflip", "numkind", "maybe-flip", "extra", "contents", "same"}

func dominant(muts []string) string {
	for _, p := range mutPriority {
		for _, m := range muts {
			if m == p {
				return p
			}
		}
	}
	return strings.Join(muts, "+")
}

// pristineCompileHost: a raw *val.Env cannot be compiled against; use the host value.
func pristineCompileHost(e *Env7, host interface{}) interface{} {
	if e.Raw {
		var ne Env7
		cloneVT(e, &ne)
		ne.Raw = false
		v, _ := hostOf(&ne)
		return v
	}
	return host
}

func shapeOf(src string) string {
	var b strings.Builder
	for _, r := range src {
		switch {
		case r >= '0' && r <= '9':
			b.WriteByte('9')
		case r == ' ':
		default:
			b.WriteRune(r)
		}
	}
	return b.String()
}

// ---------------------------------------------------------------------------

type c07 struct{}

func init() { drivers["C07"] = c07{} }

func (c07) ID() string           { return "C07" }
func (c07) NeedsTZ() bool        { return false }
func (c07) BatchSize(string) int { return 300 }
func (c07) Rule() string {
	return "a case is one history Compile(e, A) followed by 2-11 invocations of the same Callable with environments B1..Bn, each 1-2 seeded mutations of A " +
		"(conforming: same, other contents, extra names, other Go numeric kinds, pointer vs value, map vs struct vs pointer-to-struct carrier, raw *val.Env, nested object fields reordered, top-level order, tagged-optional nil flip; " +
		"non-conforming: name dropped, type changed at top level or deep inside list/map/object, field added/removed/renamed, untagged pointer nil flip, unconvertible data); " +
		"environments are typed value trees materialised with reflect.StructOf / map[string]interface{}; programs are object literals over access paths of A wrapped in tracing functions; " +
		"hash order at ForEach/MapKeys, GC instants and VM knobs are the simulator's; oracle = own structural accept/reject model + pristine compile+invoke on Bi; " +
		"evaluations = histories whose program compiles against A; non-trivial = at least one non-identity mutation; distinct = distinct (expression shape, mutation-kind sequence)"
}
func (c07) Assumptions() []string {
	return []string{
		"the reference model of host-data typing covers the generated subset only: pointers wrap pointer-free payloads, list/map elements share one Go static type, no interface-typed containers except the deliberately unconvertible ones",
		"a nil pointer bound at the top level of a map environment is treated as unconvertible (expected: error)",
		"the fault space of this property is small (hash order, GC, knobs, object reuse); the history dimension (alternating rejections and acceptances on one Callable) is the part simulation adds",
		"sampling, not enumeration",
	}
}
func (c07) Components() map[string][]string {
	return map[string][]string{
		"real":      {"every Go package of goghcrow/yae (instrumented source)", "reflect-built host data"},
		"simulated": {"map iteration order / reflect MapKeys order", "moment of GC", "VM stack tuning constants"},
		"stub":      {},
	}
}

type c07Case struct {
	History *Hist7 `json:"history"`
}

func (c07) Batch(seed uint64, wid, batch, count int, deadline time.Time, emit func(*Record)) {
	cap := captureStdout(stdoutPath(wid, batch))
	defer cap.restore()
	x := &evalCtx{cap: cap, rec: &recorder{}}
	rec := &Record{T: "batch", Counts: map[string]int64{}}
	hset := map[uint64]struct{}{}
	for i := 0; i < count; i++ {
		if time.Now().After(deadline) {
			break
		}
		emit(&Record{T: "start", Runs: i})
		r := newRng(seed, uint64(wid), uint64(batch), uint64(i), 7)
		h := genHist7(r)
		res := runHist7(h, x)
		tick()
		traceRun(i, res.Sim.Hash, res.Sim.Steps, fmt.Sprint(res.Viol != nil, res.Accepts, res.Rejects, res.Shape))
		if i%16 == 15 {
			runtime.GC()
		}
		c := rec.Counts
		if res.Skipped {
			c["skipped_program_does_not_compile"]++
			continue
		}
		rec.Runs++
		c["invocations"] += int64(len(h.Steps))
		if h.Recomp > 0 {
			c["histories_recompiling_on_extended_type_env"]++
		}
		c["model_accept"] += int64(res.Accepts)
		c["model_reject"] += int64(res.Rejects)
		c["fault_hash_perm_fired"] += int64(res.Sim.MapPerms)
		c["fault_gc_fired"] += int64(res.Sim.FaultsFired["gc"])
		c["fault_knob_runs"] += int64(res.Sim.FaultsFired["knob"])
		c["steps"] += int64(res.Sim.Steps)
		for _, st := range h.Steps {
			for _, m := range st.Muts {
				c["mut_"+m]++
			}
		}
		if res.NonIdent {
			hset[fnv64(res.Shape)] = struct{}{}
			if len(rec.Samples) == 0 {
				smp, _ := json.Marshal(map[string]interface{}{"src": h.Src, "a_types": envTypes(h.A), "steps": stepSummary(h)})
				rec.Samples = append(rec.Samples, smp)
			}
		}
		if res.Viol != nil {
			cs, _ := json.Marshal(c07Case{h})
			emit(&Record{T: "viol", Viol: res.Viol, Replay: &ReplayFile{Case: cs, TZ: tzEnv()}})
		}
	}
	for h := range hset {
		rec.Hashes = append(rec.Hashes, h)
	}
	emit(rec)
}

func envTypes(e *Env7) map[string]string {
	m := map[string]string{}
	for _, b := range e.Binds {
		m[b.Name] = b.mtype()
	}
	return m
}

func stepSummary(h *Hist7) []string {
	var out []string
	for _, st := range h.Steps {
		ok, why := conforms(h.A, st.Env)
		out = append(out, fmt.Sprintf("%s carrier=%s raw=%v model_accept=%v %s", strings.Join(st.Muts, "+"), st.Env.Carrier, st.Env.Raw, ok, why))
	}
	return out
}

func fnv64(s string) uint64 {
	h := uint64(14695981039346656037)
	for i := 0; i < len(s); i++ {
		h ^= uint64(s[i])
		h *= 1099511628211
	}
	return h
}

func (c07) GenCase(seed uint64, wid, batch, i int) json.RawMessage {
	b, _ := json.Marshal(c07Case{genHist7(newRng(seed, uint64(wid), uint64(batch), uint64(i), 7))})
	return b
}

func (c07) Replay(rf *ReplayFile) *Violation {
	var cs c07Case
	if err := json.Unmarshal(rf.Case, &cs); err != nil {
		harnessFatal("replay case: %v", err)
	}
	cap := captureStdout(stdoutPath(999, 0))
	defer cap.restore()
	x := &evalCtx{cap: cap, rec: &recorder{}}
	return runHist7(cs.History, x).Viol
}

func (c07) Candidates(rf *ReplayFile) []*ReplayFile {
	var cs c07Case
	if json.Unmarshal(rf.Case, &cs) != nil {
		return nil
	}
	h := cs.History
	var out []*ReplayFile
	clone := func() *Hist7 {
		var n Hist7
		cloneVT(h, &n)
		return &n
	}
	mk := func(n *Hist7) {
		b, _ := json.Marshal(c07Case{n})
		out = append(out, &ReplayFile{Case: b})
	}
	for i := range h.Steps {
		if len(h.Steps) > 1 {
			n := clone()
			n.Steps = append(n.Steps[:i], n.Steps[i+1:]...)
			mk(n)
		}
	}
	// fewer bindings (only when every step keeps making sense: drop the same name everywhere)
	if len(h.A.Binds) > 1 {
		for _, b := range h.A.Binds {
			if strings.Contains(h.Src, b.Name) {
				continue
			}
			n := clone()
			drop := func(e *Env7) {
				var nb []*Field
				for _, x := range e.Binds {
					if x.Name != b.Name {
						nb = append(nb, x)
					}
				}
				e.Binds = nb
			}
			drop(n.A)
			for _, st := range n.Steps {
				drop(st.Env)
			}
			mk(n)
		}
	}
	// simpler program: drop one field of the result literal
	if strings.HasPrefix(h.Src, "{") && strings.Count(h.Src, ", r") > 0 {
		parts := splitTop(h.Src[1 : len(h.Src)-1])
		for i := range parts {
			if len(parts) > 1 {
				n := clone()
				np := append(append([]string{}, parts[:i]...), parts[i+1:]...)
				n.Src = "{" + strings.Join(np, ", ") + "}"
				mk(n)
			}
		}
	}
	if len(h.Sim.Faults) > 0 {
		n := clone()
		n.Sim.Faults = nil
		mk(n)
	}
	if h.Sim.MapMode != simrt.MapSorted {
		n := clone()
		n.Sim.MapMode = simrt.MapSorted
		mk(n)
	}
	if h.Sim.Knobs != nil {
		n := clone()
		n.Sim.Knobs = nil
		mk(n)
	}
	return out
}

// splitTop splits "r0: e0, r1: e1" at top-level ", r<digit>:" boundaries.
func splitTop(s string) []string {
	var out []string
	depth, start := 0, 0
	inStr := byte(0)
	for i := 0; i < len(s); i++ {
		c := s[i]
		if inStr != 0 {
			if c == '\\' {
				i++
			} else if c == inStr {
				inStr = 0
			}
			continue
		}
		switch c {
		case '"', '\'', '`':
			inStr = c
		case '(', '[', '{':
			depth++
		case ')', ']', '}':
			depth--
		case ',':
			if depth == 0 {
				out = append(out, strings.TrimSpace(s[start:i]))
				start = i + 1
			}
		}
	}
	out = append(out, strings.TrimSpace(s[start:]))
	return out
}
