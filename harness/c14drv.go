package main

import (
	"encoding/json"
	"fmt"
	"time"

	"github.com/goghcrow/yae/simrt"
)

type c14 struct{}

func init() { drivers["C14"] = c14{} }

func (c14) ID() string    { return "C14" }
func (c14) NeedsTZ() bool { return true }
func (c14) BatchSize(tier string) int {
	// small batches: every worker process starts cold (lazily initialised package
	// state, empty tz cache), and the first scenario of a batch runs concurrently
	// before anything else has touched the library.
	return 30
}
func (c14) Rule() string {
	return "a case is one scenario: 2-6 simulated tasks, each a script of engine/compile/invoke/eval/debug operations over " +
		"private engines, warmed shared engines and pre-compiled shared callables, executed under a seeded schedule source " +
		"(random walk p in {.01,.05,.3,1}, PCT-style d<=3 preemption points, store-biased, synchronisation-biased, replay) with hash-order mode and VM knobs drawn per run; " +
		"evaluations = concurrent runs; a run is non-trivial when at least one preemption (context switch not forced by task end or lock wait) happened; " +
		"distinct = distinct FNV hashes of the run's event log (switch step/from/to, seam decisions, operation outcomes)"
}
func (c14) Assumptions() []string {
	return []string{
		"preemption happens at statement boundaries and at read-modify-write splits of instrumented repository code; C code (timelib) and the Go standard library run atomically",
		"the race detector keeps 4 prior accesses per 8-byte word and de-duplicates reports per process: a worker stops at its first report",
		"the instrumented copy is semantically the repository's code: its own test-suite passes on it with the simulator inactive (fidelity check in setup/thorough)",
		"error texts are not compared (they contain counter-dependent type-variable names); outcome class, value and host-call trace are",
		"sampling, not enumeration: a clean batch is evidence, not proof",
	}
}
func (c14) Components() map[string][]string {
	return map[string][]string{
		"real": {"every Go package of goghcrow/yae (instrumented source)", "C timelib via cgo (atomic)", "Go runtime allocator/GC, reflect, regexp, fmt", "sync.Mutex (real lock, sim-aware wait)"},
		"simulated": {"choice of which task runs next", "map iteration order / reflect MapKeys order", "time.Now", "os.Stdout target", "VM stack tuning constants"},
		"stub": {},
	}
}

type c14Case struct {
	Scenario *Scenario `json:"scenario"`
}

func (c14) Batch(seed uint64, wid, batch, count int, deadline time.Time, emit func(*Record)) {
	rw := newRaceWatch()
	cap := captureStdout(stdoutPath(wid, batch))
	defer cap.restore()
	rec := &Record{T: "batch", Counts: map[string]int64{}}
	sites := map[uint32]struct{}{}
	hset := map[uint64]struct{}{}
	for i := 0; i < count; i++ {
		if time.Now().After(deadline) {
			break
		}
		emit(&Record{T: "start", Runs: i})
		r := newRng(seed, uint64(wid), uint64(batch), uint64(i))
		sc := genScenario(r, i == 0)
		res := runScenario(sc, rw)
		cap.read()
		tick()
		traceRun(i, res.Hash, res.Steps, fmt.Sprint(res.Outcomes, res.Decisions))
		rec.Runs++
		c := rec.Counts
		c["steps"] += int64(res.Steps)
		c["preemptions"] += int64(res.Preempt)
		c["switches"] += int64(res.Switches)
		c["ops"] += int64(res.OpsRun)
		c["map_perm_fired"] += int64(res.MapPerms)
		c["lock_spins"] += int64(res.LockSpins)
		c["solo_unstable_ops"] += int64(res.SoloUnstable)
		c["tasks"] += int64(len(sc.Tasks))
		if sc.ColdFirst {
			c["cold_start_runs"]++
		}
		if sc.Sim.Knobs != nil {
			c["knob_runs"]++
		}
		if len(sc.Sim.SyncPoints) > 0 {
			c["sched_pct_sync_points"]++
		} else {
			c["sched_"+schedName(sc.Sim.Sched)]++
		}
		for k, v := range res.Overlap {
			c["probe_overlap_"+k] += int64(v)
		}
		for s := range res.Sites {
			sites[s] = struct{}{}
		}
		if res.Preempt > 0 {
			hset[res.Hash] = struct{}{}
		}
		if len(rec.Samples) == 0 && res.Preempt > 0 && i > 0 {
			smp, _ := json.Marshal(map[string]interface{}{"scenario": sc, "decisions": clipDecisions(res.Decisions), "outcomes": res.Outcomes})
			rec.Samples = append(rec.Samples, smp)
		}
		if res.DecOverflow {
			c["decision_buffer_overflow_runs"]++
		}
		c["sync_sweep_runs"] += int64(res.Sweeps)
		if res.Viol != nil {
			if res.FoundSim != nil {
				sc.Sim, sc.Sweep = *res.FoundSim, 0
			}
			if !res.DecOverflow {
				// explicit schedule; a run with more switches than the buffer records is
				// replayed from its seeded schedule source instead
				sc.Sim.Sched = simrt.SchedReplay
				sc.Sim.Decisions = res.Decisions
				sc.Sim.Points = nil
			}
			cs, _ := json.Marshal(c14Case{sc})
			rf := &ReplayFile{Case: cs, TZ: tzEnv()}
			if i > 0 {
				rf.Prefix = &Prefix{seed, wid, batch, i, nWorkers()}
			}
			emit(&Record{T: "viol", Viol: res.Viol, Replay: rf})
			break // the race detector de-duplicates per process; start a fresh one
		}
	}
	for h := range hset {
		rec.Hashes = append(rec.Hashes, h)
	}
	var sl []uint32
	for st := range sites {
		sl = append(sl, st)
	}
	rec.Extra = map[string]interface{}{"sites": sl}
	emit(rec)
}

func clipDecisions(d []simrt.Decision) []simrt.Decision {
	if len(d) > 40 {
		return d[:40]
	}
	return d
}

func schedName(s int) string {
	switch s {
	case simrt.SchedRandom:
		return "random"
	case simrt.SchedPCT:
		return "pct"
	case simrt.SchedStore:
		return "store"
	case simrt.SchedSync:
		return "sync"
	}
	return "replay"
}

func (c14) GenCase(seed uint64, wid, batch, i int) json.RawMessage {
	sc := genScenario(newRng(seed, uint64(wid), uint64(batch), uint64(i)), i == 0)
	b, _ := json.Marshal(c14Case{sc})
	return b
}

func (c14) Replay(rf *ReplayFile) *Violation {
	var cs c14Case
	if err := json.Unmarshal(rf.Case, &cs); err != nil {
		harnessFatal("replay case: %v", err)
	}
	rw := newRaceWatch()
	cap := captureStdout(stdoutPath(999, 0))
	defer cap.restore()
	if p := rf.Prefix; p != nil {
		for i := 0; i < p.Count; i++ {
			r := newRng(p.Seed, uint64(p.Wid), uint64(p.Batch), uint64(i))
			sc := genScenario(r, i == 0)
			res := runScenario(sc, rw)
			if res.Viol != nil {
				return res.Viol
			}
		}
	}
	res := runScenario(cs.Scenario, rw)
	return res.Viol
}

// Candidates: drop the prefix, drop tasks, turn operations into nops, drop
// preemptions (fewest context switches wins), reset seams.
func (c14) Candidates(rf *ReplayFile) []*ReplayFile {
	var cs c14Case
	if json.Unmarshal(rf.Case, &cs) != nil {
		return nil
	}
	sc := cs.Scenario
	var out []*ReplayFile
	mk := func(n *Scenario) {
		b, _ := json.Marshal(c14Case{n})
		out = append(out, &ReplayFile{Case: b, Prefix: rf.Prefix})
	}
	clone := func() *Scenario {
		var n Scenario
		b, _ := json.Marshal(sc)
		json.Unmarshal(b, &n)
		return &n
	}
	// fewer switches: sequential execution first
	if len(sc.Sim.Decisions) > 1 {
		n := clone()
		n.Sim.Decisions = n.Sim.Decisions[:1]
		mk(n)
		n = clone()
		n.Sim.Decisions = n.Sim.Decisions[:len(n.Sim.Decisions)/2]
		mk(n)
	}
	// drop single context switches (fewest switches wins)
	if n := len(sc.Sim.Decisions); n > 1 && n <= 40 && sc.Sim.Sched == simrt.SchedReplay {
		for i := n - 1; i >= 1; i-- {
			c := clone()
			c.Sim.Decisions = append(c.Sim.Decisions[:i], c.Sim.Decisions[i+1:]...)
			mk(c)
		}
	}
	// drop a task
	if len(sc.Tasks) > 2 {
		for t := range sc.Tasks {
			n := clone()
			n.Tasks = append(n.Tasks[:t], n.Tasks[t+1:]...)
			n.Sim.Decisions = nil // task indices changed: fall back to the seeded walk
			n.Sim.Sched = simrt.SchedRandom
			n.Sim.SwitchProb = 0.05
			mk(n)
		}
	}
	// nop an operation (from the end)
	for t := range sc.Tasks {
		for i := len(sc.Tasks[t]) - 1; i >= 0; i-- {
			if sc.Tasks[t][i].K == "nop" {
				continue
			}
			n := clone()
			n.Tasks[t][i] = Op{K: "nop"}
			mk(n)
		}
	}
	// drop shared state
	if len(sc.Pre) > 0 {
		for i := range sc.Pre {
			used := false
			for _, ops := range sc.Tasks {
				for _, op := range ops {
					if op.K == "invoke" && op.CS && op.C == i {
						used = true
					}
				}
			}
			if !used && i == len(sc.Pre)-1 {
				n := clone()
				n.Pre = n.Pre[:i]
				mk(n)
			}
		}
	}
	// reset seams
	if sc.Sim.MapMode != simrt.MapSorted {
		n := clone()
		n.Sim.MapMode = simrt.MapSorted
		mk(n)
	}
	if sc.Sim.Knobs != nil {
		n := clone()
		n.Sim.Knobs = nil
		mk(n)
	}
	return out
}
