// verif-instrument rewrites (in place) every non-test .go file of a scratch copy of
// goghcrow/yae so that the deterministic-simulation runtime (package simrt, copied
// next to it) owns scheduling, map iteration order, the clock and lock waits.
//
// All edits are byte-offset text edits on the original source and stay on the
// original line, so file:line in panics and race reports are the lines of /repo.
//
//	R1  simrt.Yield(site) before every statement of every function body
//	R2  read-modify-write splitting of stores to non-local memory (x++, x op= e, L = R)
//	R3  for-range over a map  -> range over simrt.MapEntries(m); reflect MapKeys/MapRange
//	R4  time.Now/Since/Until/Sleep -> simrt
//	R5  sync.(RW)Mutex.Lock/RLock -> simrt.Lock(try, lock); sync.Once.Do -> simrt.OnceDo
//	R6  go statements: rewritten to simrt.Go (function value and arguments evaluated by the starter); WaitGroup: shadow counter; channel operations / select / Cond: reported as unsupported
//	R7  tuning constants listed in -knobs become variables registered with simrt
//	P   simrt.Enter/Leave probes at the start of functions listed in -probes
package main

import (
	"encoding/json"
	"flag"
	"fmt"
	"go/ast"
	"go/parser"
	"go/token"
	"go/types"
	"os"
	"path/filepath"
	"sort"
	"strings"

	"golang.org/x/tools/go/packages"
)

const alias = "simrt__"
const simrtPath = "github.com/goghcrow/yae/simrt"

type edit struct {
	off, end int
	text     string
	seq      int
}

type site struct {
	ID   uint32 `json:"id"`
	File string `json:"file"`
	Line int    `json:"line"`
	Kind string `json:"kind"`
	Func string `json:"func,omitempty"`
}

type report struct {
	Sites       []site         `json:"sites"`
	Counts      map[string]int `json:"counts"`
	Unsupported []string       `json:"unsupported"`
	Skipped     []string       `json:"skipped"`
	Knobs       []string       `json:"knobs"`
	Probes      []string       `json:"probes"`
	Files       int            `json:"files"`
}

var (
	rep      = report{Counts: map[string]int{}}
	nextSite uint32
	root     string
	knobSet  = map[string]bool{}
	probeSet = map[string]string{}
)

func newSite(fset *token.FileSet, pos token.Pos, kind, fn string) uint32 {
	nextSite++
	p := fset.Position(pos)
	rel, _ := filepath.Rel(root, p.Filename)
	rep.Sites = append(rep.Sites, site{nextSite, rel, p.Line, kind, fn})
	rep.Counts[kind]++
	return nextSite
}

type fileCtx struct {
	fset  *token.FileSet
	file  *ast.File
	src   []byte
	info  *types.Info // nil in syntactic mode
	pkg   string      // package path relative name, e.g. "types"
	edits []edit
	used  bool
	fn    string // current function name
	tail  string // appended at EOF
	localScopes []map[string]bool
	timeName string // local name of package "time" in syntactic mode
}

func (c *fileCtx) off(p token.Pos) int { return c.fset.Position(p).Offset }
func (c *fileCtx) text(n ast.Node) string {
	return string(c.src[c.off(n.Pos()):c.off(n.End())])
}
func (c *fileCtx) insert(p token.Pos, text string) {
	o := c.off(p)
	c.edits = append(c.edits, edit{o, o, text, len(c.edits)})
	c.used = true
}
func (c *fileCtx) replace(from, to token.Pos, text string) {
	c.edits = append(c.edits, edit{c.off(from), c.off(to), text, len(c.edits)})
	c.used = true
}

func main() {
	dir := flag.String("dir", "", "root of the scratch copy (module root)")
	out := flag.String("sites", "", "write the site table / report here (JSON)")
	knobs := flag.String("knobs", "vm.stackInit,vm.stackGrow", "comma separated pkg.const tuning constants to turn into knobs")
	probes := flag.String("probes", "types.Check,types.Unify,types.Equals,yae.makeSureInit,yae.Compile,yae.envCheck,timelib.parse_tzfile,timelib.Strtotime,vm.Interp,val.String,conv.valOf", "comma separated pkg.Func probe regions")
	flag.Parse()
	if *dir == "" {
		fmt.Fprintln(os.Stderr, "usage: verif-instrument -dir DIR [-sites FILE]")
		os.Exit(2)
	}
	var err error
	root, err = filepath.Abs(*dir)
	if err != nil {
		fatal(err)
	}
	for _, k := range strings.Split(*knobs, ",") {
		if k = strings.TrimSpace(k); k != "" {
			knobSet[k] = true
		}
	}
	for _, p := range strings.Split(*probes, ",") {
		if p = strings.TrimSpace(p); p != "" {
			probeSet[p] = p
		}
	}

	cfg := &packages.Config{
		Mode: packages.NeedName | packages.NeedFiles | packages.NeedCompiledGoFiles |
			packages.NeedSyntax | packages.NeedTypes | packages.NeedTypesInfo | packages.NeedImports | packages.NeedDeps,
		Dir:   root,
		Tests: false,
		Env:   os.Environ(),
	}
	pkgs, err := packages.Load(cfg, "./...")
	if err != nil {
		fatal(err)
	}
	sort.Slice(pkgs, func(i, j int) bool { return pkgs[i].PkgPath < pkgs[j].PkgPath })
	for _, p := range pkgs {
		if p.PkgPath == simrtPath || strings.HasPrefix(p.PkgPath, simrtPath+"/") {
			continue
		}
		if len(p.GoFiles) == 0 {
			continue
		}
		for _, e := range p.Errors {
			// type errors in the original tree: not ours to hide
			fatal(fmt.Errorf("load %s: %v", p.PkgPath, e))
		}
		cgo := false
		for _, f := range p.GoFiles {
			if !contains(p.CompiledGoFiles, f) {
				cgo = true
			}
		}
		if cgo {
			files := append([]string(nil), p.GoFiles...)
			sort.Strings(files)
			for _, f := range files {
				processSyntactic(p, f)
			}
			continue
		}
		type pf struct {
			name string
			f    *ast.File
		}
		var fs []pf
		for i, f := range p.Syntax {
			fs = append(fs, pf{p.CompiledGoFiles[i], f})
		}
		sort.Slice(fs, func(i, j int) bool { return fs[i].name < fs[j].name })
		for _, x := range fs {
			if strings.HasSuffix(x.name, "_test.go") {
				continue
			}
			src, err := os.ReadFile(x.name)
			if err != nil {
				fatal(err)
			}
			c := &fileCtx{fset: p.Fset, file: x.f, src: src, info: p.TypesInfo, pkg: p.Name}
			c.process()
			c.flush(x.name)
		}
	}
	sort.Strings(rep.Unsupported)
	if *out != "" {
		b, _ := json.Marshal(rep)
		if err := os.WriteFile(*out, b, 0o644); err != nil {
			fatal(err)
		}
	}
	fmt.Printf("instrumented %d files: %v; unsupported=%d knobs=%v\n", rep.Files, rep.Counts, len(rep.Unsupported), rep.Knobs)
}

func fatal(err error) {
	fmt.Fprintln(os.Stderr, "verif-instrument:", err)
	os.Exit(2)
}

func contains(xs []string, x string) bool {
	for _, y := range xs {
		if y == x {
			return true
		}
	}
	return false
}

func processSyntactic(p *packages.Package, name string) {
	if strings.HasSuffix(name, "_test.go") {
		return
	}
	src, err := os.ReadFile(name)
	if err != nil {
		fatal(err)
	}
	fset := token.NewFileSet()
	f, err := parser.ParseFile(fset, name, src, parser.ParseComments)
	if err != nil {
		fatal(err)
	}
	c := &fileCtx{fset: fset, file: f, src: src, info: nil, pkg: p.Name}
	for _, im := range f.Imports {
		if im.Path.Value == `"time"` {
			c.timeName = "time"
			if im.Name != nil {
				c.timeName = im.Name.Name
			}
		}
	}
	c.process()
	c.flush(name)
}

// ---------------------------------------------------------------------------

func (c *fileCtx) flush(name string) {
	if !c.used && c.tail == "" {
		return
	}
	// import on the package line keeps line numbers intact
	c.insert(c.file.Name.End(), "; import "+alias+" \""+simrtPath+"\"")
	sort.SliceStable(c.edits, func(i, j int) bool {
		a, b := c.edits[i], c.edits[j]
		if a.off != b.off {
			return a.off > b.off
		}
		// same offset: a replacement starting here must be applied before an
		// insertion here, so that the insertion ends up in front of it
		ar, br := a.end > a.off, b.end > b.off
		if ar != br {
			return ar
		}
		return a.seq > b.seq // later-registered insertions applied first => end up after earlier ones
	})
	out := append([]byte(nil), c.src...)
	last := len(out) + 1
	for _, e := range c.edits {
		if e.end > last {
			fatal(fmt.Errorf("%s: overlapping edits at %d..%d", name, e.off, e.end))
		}
		out = append(out[:e.off], append([]byte(e.text), out[e.end:]...)...)
		last = e.off
	}
	if c.tail != "" {
		out = append(out, []byte("\n"+c.tail+"\n")...)
	}
	if err := os.WriteFile(name, out, 0o644); err != nil {
		fatal(err)
	}
	rep.Files++
}

func (c *fileCtx) process() {
	for _, d := range c.file.Decls {
		switch d := d.(type) {
		case *ast.FuncDecl:
			if d.Body == nil {
				continue
			}
			c.fn = d.Name.Name
			c.walkFuncBody(d.Body, d.Name.Name)
		case *ast.GenDecl:
			c.genDecl(d)
		}
	}
}

func (c *fileCtx) genDecl(d *ast.GenDecl) {
	if d.Tok == token.CONST && !d.Lparen.IsValid() && len(d.Specs) == 1 {
		vs := d.Specs[0].(*ast.ValueSpec)
		if len(vs.Names) == 1 && len(vs.Values) == 1 && vs.Type == nil {
			key := c.pkg + "." + vs.Names[0].Name
			if lit, ok := vs.Values[0].(*ast.BasicLit); ok && lit.Kind == token.INT && knobSet[key] {
				c.replace(d.Pos(), d.Pos()+token.Pos(len("const")), "var")
				c.tail += fmt.Sprintf("func init() { %s.RegisterKnob(%q, &%s) }\n", alias, key, vs.Names[0].Name)
				rep.Knobs = append(rep.Knobs, key)
			}
		}
	}
	// function literals in package-level initialisers (e.g. types.TyVar)
	for _, sp := range d.Specs {
		vs, ok := sp.(*ast.ValueSpec)
		if !ok {
			continue
		}
		name := ""
		if len(vs.Names) > 0 {
			name = vs.Names[0].Name
		}
		for _, v := range vs.Values {
			c.fn = name
			c.walkExpr(v)
		}
	}
}

func (c *fileCtx) walkFuncBody(b *ast.BlockStmt, name string) {
	if region, ok := probeSet[c.pkg+"."+name]; ok && b.Lbrace.IsValid() {
		c.insert(b.Lbrace+1, fmt.Sprintf(" %s.Enter(%q); defer %s.Leave(%q);", alias, region, alias, region))
		rep.Probes = append(rep.Probes, region)
	}
	c.block(b.List)
}

// block instruments a statement list.
func (c *fileCtx) block(list []ast.Stmt) {
	for _, st := range list {
		c.stmtInList(st)
	}
}

func (c *fileCtx) yieldText(pos token.Pos, kind string) string {
	id := newSite(c.fset, pos, kind, c.fn)
	if kind == "hot" || kind == "gstore" {
		return fmt.Sprintf("%s.YieldG(%d)", alias, id)
	}
	if kind == "store" {
		return fmt.Sprintf("%s.YieldW(%d)", alias, id)
	}
	return fmt.Sprintf("%s.Yield(%d)", alias, id)
}

// hotStmt: the statement itself (not nested bodies) performs a synchronisation
// operation — a sync/atomic call, a method of a sync type (Mutex, RWMutex, Map, Pool,
// Once, WaitGroup), or an atomic.* value's method. Such statements get a yield of
// the "store" kind, which the store-biased schedule source concentrates on: logic
// bugs around correctly synchronised state need preemptions exactly there.
func (c *fileCtx) hotStmt(st ast.Stmt) bool {
	var exprs []ast.Expr
	switch n := st.(type) {
	case *ast.ExprStmt:
		exprs = []ast.Expr{n.X}
	case *ast.AssignStmt:
		exprs = append(append(exprs, n.Lhs...), n.Rhs...)
	case *ast.ReturnStmt:
		exprs = n.Results
	case *ast.DeferStmt:
		exprs = []ast.Expr{n.Call}
	case *ast.IfStmt:
		exprs = []ast.Expr{n.Cond}
		if a, ok := n.Init.(*ast.AssignStmt); ok {
			exprs = append(exprs, a.Rhs...)
		}
	case *ast.DeclStmt:
		if gd, ok := n.Decl.(*ast.GenDecl); ok {
			for _, sp := range gd.Specs {
				if vs, ok := sp.(*ast.ValueSpec); ok {
					exprs = append(exprs, vs.Values...)
				}
			}
		}
	case *ast.LabeledStmt:
		return c.hotStmt(n.Stmt)
	default:
		return false
	}
	hot := false
	for _, e := range exprs {
		if e == nil {
			continue
		}
		ast.Inspect(e, func(x ast.Node) bool {
			switch y := x.(type) {
			case *ast.FuncLit:
				return false
			case *ast.CallExpr:
				if sel, ok := y.Fun.(*ast.SelectorExpr); ok {
					if c.info == nil {
						// syntactic mode (cgo package): by method name
						switch sel.Sel.Name {
						case "Lock", "Unlock", "RLock", "RUnlock", "TryLock", "TryRLock":
							hot = true
						}
						return !hot
					}
					if obj := c.info.Uses[sel.Sel]; obj != nil && obj.Pkg() != nil {
						switch obj.Pkg().Path() {
						case "sync/atomic", "sync":
							hot = true
						}
					}
				}
			}
			return !hot
		})
	}
	return hot
}

func (c *fileCtx) stmtInList(st ast.Stmt) {
	// R1
	if _, isEmpty := st.(*ast.EmptyStmt); !isEmpty {
		kind := "stmt"
		if c.hotStmt(st) {
			kind = "hot"
		}
		c.insert(st.Pos(), c.yieldText(st.Pos(), kind)+"; ")
	}
	inner := st
	for {
		l, ok := inner.(*ast.LabeledStmt)
		if !ok {
			break
		}
		inner = l.Stmt
	}
	c.stmt(inner, inner == st)
}

// stmt handles one statement; inList tells whether it may be replaced by a block.
func (c *fileCtx) stmt(st ast.Stmt, inList bool) {
	switch n := st.(type) {
	case *ast.BlockStmt:
		c.block(n.List)
	case *ast.IfStmt:
		if n.Init != nil {
			c.stmt(n.Init, false)
		}
		c.walkExpr(n.Cond)
		c.block(n.Body.List)
		if n.Else != nil {
			c.stmt(n.Else, false)
		}
	case *ast.ForStmt:
		if n.Init != nil {
			c.stmt(n.Init, false)
		}
		if n.Cond != nil {
			c.walkExpr(n.Cond)
		}
		if n.Post != nil {
			c.stmt(n.Post, false)
		}
		if len(n.Body.List) == 0 {
			c.insert(n.Body.Lbrace+1, " "+c.yieldText(n.Body.Lbrace, "loop")+" ")
		}
		c.block(n.Body.List)
	case *ast.RangeStmt:
		c.rangeStmt(n)
	case *ast.SwitchStmt:
		if n.Init != nil {
			c.stmt(n.Init, false)
		}
		if n.Tag != nil {
			c.walkExpr(n.Tag)
		}
		for _, cl := range n.Body.List {
			cc := cl.(*ast.CaseClause)
			for _, e := range cc.List {
				c.walkExpr(e)
			}
			c.block(cc.Body)
		}
	case *ast.TypeSwitchStmt:
		if n.Init != nil {
			c.stmt(n.Init, false)
		}
		c.stmt(n.Assign, false)
		for _, cl := range n.Body.List {
			c.block(cl.(*ast.CaseClause).Body)
		}
	case *ast.SelectStmt:
		c.unsupported(n.Pos(), "select statement")
		for _, cl := range n.Body.List {
			c.block(cl.(*ast.CommClause).Body)
		}
	case *ast.GoStmt:
		c.goStmt(n)
	case *ast.SendStmt:
		c.unsupported(n.Pos(), "channel send")
	case *ast.DeferStmt:
		c.walkExpr(n.Call)
	case *ast.ExprStmt:
		if inList && c.lockStmt(n) {
			return
		}
		c.walkExpr(n.X)
	case *ast.IncDecStmt:
		if inList && c.splittable(n.X) {
			op := "+"
			if n.Tok == token.DEC {
				op = "-"
			}
			l := c.text(n.X)
			c.replace(n.Pos(), n.End(), fmt.Sprintf("{ t__ := %s %s 1; %s; %s = t__ }", l, op, c.yieldText(n.Pos(), c.storeKind(n.X)), l))
			return
		}
		c.walkExpr(n.X)
	case *ast.AssignStmt:
		c.assign(n, inList)
	case *ast.ReturnStmt:
		for _, e := range n.Results {
			c.walkExpr(e)
		}
	case *ast.DeclStmt:
		if gd, ok := n.Decl.(*ast.GenDecl); ok {
			for _, sp := range gd.Specs {
				if vs, ok := sp.(*ast.ValueSpec); ok {
					for _, v := range vs.Values {
						c.walkExpr(v)
					}
				}
			}
		}
	case *ast.LabeledStmt:
		c.stmt(n.Stmt, false)
	}
}

// goStmt (R6): `go FUN(A0, A1)` becomes
//
//	{ f__, a0__, a1__ := FUN, A0, A1; simrt__.Go(func() { f__(a0__, a1__) }) }
//
// so that function value and arguments are evaluated by the starting goroutine, as the
// language prescribes, and the new goroutine is a simulated task. FUN and the arguments
// stay where they are in the text (edits inside them compose); constant arguments are
// converted to the parameter's (basic) type. Anything else is reported as unsupported.
func (c *fileCtx) goStmt(n *ast.GoStmt) {
	call := n.Call
	bail := func(why string) {
		c.unsupported(n.Pos(), "go statement ("+why+")")
		c.walkExpr(call)
	}
	if c.info == nil {
		bail("no type information")
		return
	}
	sig, ok := c.info.TypeOf(call.Fun).(*types.Signature)
	if !ok {
		bail("not a function value") // conversion or built-in
		return
	}
	if id, ok := call.Fun.(*ast.Ident); ok {
		if _, isB := c.info.Uses[id].(*types.Builtin); isB {
			bail("built-in")
			return
		}
	}
	names := []string{"f__"}
	for i, a := range call.Args {
		tv := c.info.Types[a]
		if tup, ok := tv.Type.(*types.Tuple); ok && tup.Len() != 1 {
			bail("multi-value argument")
			return
		}
		if tv.Value != nil || tv.IsNil() || func() bool {
			b, ok := tv.Type.(*types.Basic)
			return ok && b.Info()&types.IsUntyped != 0
		}() {
			// constant / untyped argument: give it the parameter's type
			var pt types.Type
			switch {
			case sig.Variadic() && i >= sig.Params().Len()-1:
				pt = sig.Params().At(sig.Params().Len() - 1).Type().(*types.Slice).Elem()
			case i < sig.Params().Len():
				pt = sig.Params().At(i).Type()
			}
			b, ok := pt.(*types.Basic)
			if !ok || tv.IsNil() {
				bail("constant argument of a non-basic parameter type")
				return
			}
			c.insert(a.Pos(), b.Name()+"(")
			c.insert(a.End(), ")")
		}
		names = append(names, fmt.Sprintf("a%d__", i))
	}
	c.walkExpr(call.Fun)
	for _, a := range call.Args {
		c.walkExpr(a)
	}
	c.replace(n.Pos(), call.Fun.Pos(), "{ "+strings.Join(names, ", ")+" := ")
	if len(call.Args) > 0 {
		c.replace(call.Lparen, call.Lparen+1, ", ")
	} else {
		c.replace(call.Lparen, call.Lparen+1, "")
	}
	inv := "f__(" + strings.Join(names[1:], ", ")
	if call.Ellipsis.IsValid() {
		c.replace(call.Ellipsis, call.Ellipsis+3, "")
		inv += "..."
	}
	inv += ")"
	c.replace(call.Rparen, call.Rparen+1, "; simrt__.Go(func() { "+inv+" }) }")
	rep.Counts["go"]++
}

func (c *fileCtx) unsupported(pos token.Pos, what string) {
	p := c.fset.Position(pos)
	rel, _ := filepath.Rel(root, p.Filename)
	rep.Unsupported = append(rep.Unsupported, fmt.Sprintf("%s:%d: %s", rel, p.Line, what))
}

// walkExpr visits expressions: function literals get their bodies instrumented,
// seams R3b/R4/R5(Once) are applied, channel receives are flagged.
func (c *fileCtx) walkExpr(e ast.Expr) {
	if e == nil {
		return
	}
	ast.Inspect(e, func(n ast.Node) bool {
		switch x := n.(type) {
		case *ast.FuncLit:
			c.block(x.Body.List)
			return false
		case *ast.UnaryExpr:
			if x.Op == token.ARROW {
				c.unsupported(x.Pos(), "channel receive")
			}
		case *ast.SelectorExpr:
			c.selector(x)
		case *ast.CallExpr:
			c.call(x)
		}
		return true
	})
}

func (c *fileCtx) isPkg(id *ast.Ident, path string) bool {
	if c.info != nil {
		if pn, ok := c.info.Uses[id].(*types.PkgName); ok {
			return pn.Imported().Path() == path
		}
		return false
	}
	return path == "time" && c.timeName != "" && id.Name == c.timeName && id.Obj == nil
}

func (c *fileCtx) selector(x *ast.SelectorExpr) {
	id, ok := x.X.(*ast.Ident)
	if !ok {
		return
	}
	if c.isPkg(id, "time") {
		switch x.Sel.Name {
		case "Now", "Since", "Until", "Sleep":
			c.replace(x.Pos(), x.End(), alias+"."+x.Sel.Name)
			rep.Counts["clock"]++
		case "After", "AfterFunc", "NewTimer", "NewTicker", "Tick":
			c.unsupported(x.Pos(), "time."+x.Sel.Name)
		}
	}
}

func (c *fileCtx) methodOf(sel *ast.SelectorExpr) string {
	if c.info == nil {
		return ""
	}
	if s, ok := c.info.Selections[sel]; ok {
		if f, ok := s.Obj().(*types.Func); ok {
			return f.FullName()
		}
	}
	return ""
}

func (c *fileCtx) call(x *ast.CallExpr) {
	sel, ok := x.Fun.(*ast.SelectorExpr)
	if !ok {
		return
	}
	switch c.methodOf(sel) {
	case "(reflect.Value).MapKeys":
		c.insert(x.Pos(), alias+".PermuteValues(")
		c.insert(x.End(), ")")
		rep.Counts["mapkeys"]++
	case "(reflect.Value).MapRange":
		c.insert(x.Pos(), alias+".MapRange(")
		c.replace(sel.X.End(), x.End(), ")")
		rep.Counts["mapkeys"]++
	case "(*sync.Once).Do":
		if len(x.Args) == 1 {
			key := "&" + c.text(sel.X)
			if t := c.info.TypeOf(sel.X); t != nil {
				if _, isPtr := t.Underlying().(*types.Pointer); isPtr {
					key = c.text(sel.X)
				}
			}
			c.replace(x.Pos(), x.Args[0].Pos(), fmt.Sprintf("%s.OnceDo(%s, %s.Do, ", alias, key, c.text(sel.X)))
			rep.Counts["once"]++
		}
	case "(*sync.WaitGroup).Wait", "(*sync.WaitGroup).Done", "(*sync.WaitGroup).Add":
		if !simpleOperand(sel.X) {
			c.unsupported(x.Pos(), c.methodOf(sel)+" on an expression with calls")
			return
		}
		key := "&" + c.text(sel.X)
		if t := c.info.TypeOf(sel.X); t != nil {
			if _, isPtr := t.Underlying().(*types.Pointer); isPtr {
				key = c.text(sel.X)
			}
		}
		fn := map[string]string{"Wait": "WGWait", "Done": "WGDone", "Add": "WGAdd"}[sel.Sel.Name]
		if sel.Sel.Name == "Add" {
			if len(x.Args) == 1 {
				c.replace(x.Pos(), x.Args[0].Pos(), fmt.Sprintf("%s.%s(%s, %s.Add, ", alias, fn, key, c.text(sel.X)))
			}
		} else {
			c.replace(x.Pos(), x.End(), fmt.Sprintf("%s.%s(%s, %s.%s)", alias, fn, key, c.text(sel.X), sel.Sel.Name))
		}
		rep.Counts["waitgroup"]++
	case "(*sync.Cond).Wait":
		c.unsupported(x.Pos(), c.methodOf(sel))
	}
}

// lockStmt rewrites `X.Lock()` / `X.RLock()` statements on sync mutexes.
func (c *fileCtx) lockStmt(n *ast.ExprStmt) bool {
	call, ok := n.X.(*ast.CallExpr)
	if !ok || len(call.Args) != 0 {
		return false
	}
	sel, ok := call.Fun.(*ast.SelectorExpr)
	if !ok {
		return false
	}
	try := ""
	if c.info != nil {
		switch c.methodOf(sel) {
		case "(*sync.Mutex).Lock", "(*sync.RWMutex).Lock":
			try = "TryLock"
		case "(*sync.RWMutex).RLock":
			try = "TryRLock"
		}
	} else {
		// syntactic mode (cgo package): any zero-argument .Lock()/.RLock() call
		switch sel.Sel.Name {
		case "Lock":
			try = "TryLock"
		case "RLock":
			try = "TryRLock"
		}
	}
	if try == "" {
		return false
	}
	if !simpleOperand(sel.X) {
		c.unsupported(n.Pos(), "Lock on an expression with calls")
		return false
	}
	x := c.text(sel.X)
	c.replace(n.Pos(), n.End(), fmt.Sprintf("%s.Lock(%s.%s, %s.%s)", alias, x, try, x, sel.Sel.Name))
	rep.Counts["lock"]++
	return true
}

// simpleOperand: expression without calls / receives / literals with bodies.
func simpleOperand(e ast.Expr) bool {
	ok := true
	ast.Inspect(e, func(n ast.Node) bool {
		switch x := n.(type) {
		case *ast.CallExpr, *ast.FuncLit, *ast.CompositeLit, *ast.TypeAssertExpr:
			ok = false
		case *ast.UnaryExpr:
			if x.Op == token.ARROW {
				ok = false
			}
		}
		return ok
	})
	return ok
}

// storeKind: stores to plain identifiers are, by construction of splittable, stores
// to package-level or captured variables ("gstore": certainly shared memory); in the
// typed mode everything else (fields, elements, dereferences) is "store".
func (c *fileCtx) storeKind(l ast.Expr) string {
	if c.info == nil {
		return "store"
	}
	for {
		p, ok := l.(*ast.ParenExpr)
		if !ok {
			break
		}
		l = p.X
	}
	if _, ok := l.(*ast.Ident); ok {
		return "gstore"
	}
	return "store"
}

// splittable decides whether a store to designator l should be split (R2):
// l denotes non-local memory and re-evaluating it has no side effects.
func (c *fileCtx) splittable(l ast.Expr) bool {
	if !simpleOperand(l) {
		return false
	}
	switch x := l.(type) {
	case *ast.Ident:
		if x.Name == "_" {
			return false
		}
		if c.info == nil {
			return true // syntactic mode: splitting a local is harmless
		}
		obj, ok := c.info.Uses[x].(*types.Var)
		if !ok {
			if d, ok2 := c.info.Defs[x].(*types.Var); ok2 {
				obj = d
			} else {
				return false
			}
		}
		if obj.Parent() == nil {
			return false
		}
		if obj.Parent() == obj.Pkg().Scope() {
			return true // package-level variable
		}
		return c.captured(x, obj)
	case *ast.SelectorExpr, *ast.IndexExpr, *ast.StarExpr:
		return true
	case *ast.ParenExpr:
		return c.splittable(x.X)
	}
	return false
}

// captured: the variable is declared outside the innermost function literal /
// declaration that contains the use.
func (c *fileCtx) captured(use *ast.Ident, obj *types.Var) bool {
	path := enclosing(c.file, use.Pos())
	for i := len(path) - 1; i >= 0; i-- {
		switch f := path[i].(type) {
		case *ast.FuncLit:
			return !(f.Pos() <= obj.Pos() && obj.Pos() < f.End())
		case *ast.FuncDecl:
			return false
		}
	}
	return false
}

func enclosing(f *ast.File, pos token.Pos) []ast.Node {
	var path []ast.Node
	ast.Inspect(f, func(n ast.Node) bool {
		if n == nil {
			return false
		}
		if n.Pos() <= pos && pos < n.End() {
			path = append(path, n)
			return true
		}
		return false
	})
	return path
}

func (c *fileCtx) untypedOrConst(e ast.Expr) bool {
	if c.info == nil {
		switch x := e.(type) {
		case *ast.CallExpr, *ast.IndexExpr, *ast.SelectorExpr, *ast.StarExpr:
			return false
		case *ast.Ident:
			return x.Name == "nil" || x.Name == "true" || x.Name == "false" || x.Name == "iota"
		}
		return true
	}
	tv, ok := c.info.Types[e]
	if !ok {
		return true
	}
	if tv.Value != nil {
		return true
	}
	if b, ok := tv.Type.(*types.Basic); ok && b.Info()&types.IsUntyped != 0 {
		return true
	}
	if tup, ok := tv.Type.(*types.Tuple); ok && tup.Len() != 1 {
		return true
	}
	return false
}

func (c *fileCtx) assign(n *ast.AssignStmt, inList bool) {
	for _, e := range n.Rhs {
		c.walkExpr(e)
	}
	done := false
	if inList && len(n.Lhs) == 1 && len(n.Rhs) == 1 && n.Tok != token.DEFINE && c.splittable(n.Lhs[0]) {
		l := c.text(n.Lhs[0])
		r := n.Rhs[0]
		if n.Tok == token.ASSIGN {
			if !c.untypedOrConst(r) {
				c.replace(n.Pos(), r.Pos(), "{ t__ := ")
				c.insert(r.End(), fmt.Sprintf("; %s; %s = t__ }", c.yieldText(n.Pos(), c.storeKind(n.Lhs[0])), l))
				done = true
			}
		} else {
			op := strings.TrimSuffix(n.Tok.String(), "=")
			c.replace(n.Pos(), r.Pos(), fmt.Sprintf("{ t__ := %s %s (", l, op))
			c.insert(r.End(), fmt.Sprintf("); %s; %s = t__ }", c.yieldText(n.Pos(), c.storeKind(n.Lhs[0])), l))
			done = true
		}
	}
	if !done {
		for _, e := range n.Lhs {
			c.walkExpr(e)
		}
	}
}

func (c *fileCtx) rangeStmt(n *ast.RangeStmt) {
	isMap := false
	if c.info != nil {
		if t := c.info.TypeOf(n.X); t != nil {
			_, isMap = t.Underlying().(*types.Map)
			if _, isChan := t.Underlying().(*types.Chan); isChan {
				c.unsupported(n.Pos(), "range over channel")
			}
		}
	}
	c.walkExpr(n.X)
	if isMap {
		blank := func(e ast.Expr) bool {
			if e == nil {
				return true
			}
			id, ok := e.(*ast.Ident)
			return ok && id.Name == "_"
		}
		k, v := "_", "_"
		if !blank(n.Key) {
			k = c.text(n.Key)
		}
		if !blank(n.Value) {
			v = c.text(n.Value)
		}
		var prolog string
		switch {
		case n.Tok == token.ASSIGN && (k != "_" || v != "_"):
			prolog = fmt.Sprintf("k__, v__, ok__ := e__.Get(); if !ok__ { continue }; %s, %s = k__, v__;", k, v)
		default:
			prolog = fmt.Sprintf("%s, %s, ok__ := e__.Get(); if !ok__ { continue };", k, v)
		}
		c.replace(n.Pos(), n.X.Pos(), fmt.Sprintf("for _, e__ := range %s.MapEntries(", alias))
		c.replace(n.X.End(), n.Body.Lbrace+1, ") { "+prolog)
		rep.Counts["maprange"]++
	}
	if len(n.Body.List) == 0 {
		c.insert(n.Body.Lbrace+1, " "+c.yieldText(n.Body.Lbrace, "loop")+" ")
	}
	c.block(n.Body.List)
}
