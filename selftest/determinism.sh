#!/bin/bash
# Determinism self-test: the same (seed, worker, batch) must produce the same
# per-run event-log hashes, step counts and outcomes in fresh processes at
# GOMAXPROCS 1, 4 and 16. usage: determinism.sh <harness-binary> <scratch> [props...]
set -uo pipefail
H=$1; SCR=$2; shift 2
PROPS=${*:-C14}
NSEEDS=${VERIF_DET_SEEDS:-12}
COUNT=${VERIF_DET_COUNT:-12}
fail=0; total=0
for prop in $PROPS; do
  for s in $(seq 1 "$NSEEDS"); do
    ref=""
    for gmp in 1 4 16; do
      for rep in 1 2; do
        t="$SCR/trace-$prop-$s-$gmp-$rep"
        VERIF_TRACE=$t VERIF_SCRATCH=$SCR TZ=UTC GOMAXPROCS=$gmp \
          GORACE="log_path=$SCR/race-det-$s-$gmp-$rep halt_on_error=0 exitcode=0" \
          "$H" worker -prop "$prop" -seed "$s" -wid "$((s % 5))" -batch "$((s % 3))" -count "$COUNT" >/dev/null 2>"$t.err" &
      done
    done
    wait
    for gmp in 1 4 16; do for rep in 1 2; do
      t="$SCR/trace-$prop-$s-$gmp-$rep"
      total=$((total+1))
      if [ ! -s "$t" ]; then echo "HARNESS-ERROR: determinism: no trace from $prop seed $s GOMAXPROCS=$gmp"; cat "$t.err" | head -5; exit 2; fi
      if [ -z "$ref" ]; then ref=$t; elif ! cmp -s "$ref" "$t"; then
        echo "NONDETERMINISM: $prop seed=$s GOMAXPROCS=$gmp rep=$rep differs from the reference run:"; diff "$ref" "$t" | head -6; fail=$((fail+1))
      fi
    done; done
    rm -f "$SCR"/race-det-* 
  done
done
echo "determinism self-test: $total processes over $NSEEDS seeds x GOMAXPROCS{1,4,16} x 2 for [$PROPS], $COUNT runs each: $fail divergent"
[ "$fail" = 0 ] || exit 1
