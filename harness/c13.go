package main

import (
	"os/exec"
	"flag"
	"bytes"
	"encoding/json"
	"fmt"
	"os"
	"reflect"
	"regexp"
	"runtime"
	"sort"
	"strconv"
	"strings"
	"sync"
	"time"

	yae "github.com/goghcrow/yae"
	"github.com/goghcrow/yae/compiler"
	"github.com/goghcrow/yae/conv"
	"github.com/goghcrow/yae/fun"
	"github.com/goghcrow/yae/parser/ast"
	"github.com/goghcrow/yae/simrt"
	"github.com/goghcrow/yae/types"
	"github.com/goghcrow/yae/val"
)

// ---------------------------------------------------------------------------
// C13: one simulated task executes a history of compile / invoke / eval / debug
// operations over pooled engines, callables and (re)used environment objects while
// the simulator permutes hash order, jumps the clock, forces GCs, breaks stdout
// and interleaves unrelated compilations. Every operation must reproduce the entry
// of a pristine table (fresh engine, fresh carriers, no faults).

type H13Op struct {
	K          string `json:"k"` // nop | compile | invoke | eval | debug | interfere
	Eng        int    `json:"eng,omitempty"`
	Prog       *Prog  `json:"prog,omitempty"`
	C          int    `json:"c,omitempty"`       // invoke: op index of the compile
	Carrier    string `json:"carrier,omitempty"` // fresh | reused | raw
	Env        string `json:"env,omitempty"`     // invoke: environment contents
	StdoutFail bool   `json:"stdout_fail,omitempty"`
	GCBefore   bool   `json:"gc_before,omitempty"` // injected fault: a full collection right before this operation
	Reenter    bool   `json:"reenter,omitempty"`   // injected interference: while inside tr(), the SAME Callable is invoked again on other contents
	N          int    `json:"n,omitempty"`         // interfere: number of unrelated compilations
	Prog2      *Prog  `json:"prog2,omitempty"`     // compose: the second component
}

type Hist13 struct {
	Engines []EngineSpec `json:"engines"`
	Ops     []H13Op      `json:"ops"`
	Sim     simrt.Config `json:"sim"`
	// Fresh: the pristine evaluations are ALSO computed by a fresh OS process and compared with
	// this process's: an outcome may not depend on what the process happened to evaluate before
	// (process-wide memos are the same for history and in-process pristine, so neither sees them)
	Fresh bool `json:"fresh,omitempty"`
}

// what one evaluation produced, in every observable the property names
type obs struct {
	Class  string // ok | cerr | err | panic | skip
	Value  string // harness rendering
	Text   string // (*Val).String()
	Calls  string // ordered host-call trace
	Stdout string
	Debug  string
	held   *val.Val // the returned value itself: must still render the same when the history is over
	Law    string   // a violated value-level law (numLaw), "" if none
	Panic  string   // text of a panic that escaped the library (not compared, only reported)
}

func (o obs) String() string {
	return fmt.Sprintf("class=%s value=%s text=%q calls=%s stdout=%q debug=%q", o.Class, clip(o.Value), clip(o.Text), clip(o.Calls), clip(o.Stdout), clip(o.Debug))
}

// c13Progs: the C14 pool plus print / sharing / multi-entry-map programs.
var c13Extra = []Prog{
	{"print(n) + 1", "map", false, false},
	{"print(l)", "struct", false, false},
	{"print(m)", "map", false, false},
	{"if(b, print(\"yes\"), print(\"no\"))", "map", false, false},
	{"print(tr(o))", "map", true, false},
	{"[print(tr(1)), print(tr(2))]", "none", true, false},
	{"[l, l]", "map", false, false},
	{"[o, o]", "struct", false, false},
	{"{a: m, b: m}", "map", false, false},
	{"string([l, l])", "map", false, false},
	{"string({a: o, b: o})", "map", false, false},
	{"[ll, ll]", "map", false, false},
	{"string(mo)", "map", false, false},
	{"mo", "struct", false, false},
	{"mi", "map", false, false},
	{"string(mi)", "struct", false, false},
	{"string([\"z\": 1, \"a\": 2, \"m\": 3, \"b\": 4, \"y\": 5])", "none", false, false},
	{"[\"z\": 1, \"a\": 2, \"m\": 3, \"b\": 4, \"y\": 5]", "none", false, false},
	{"string([3: \"c\", 1: \"a\", 2: \"b\", 10: \"j\"])", "none", false, false},
	{"[true: 1, false: 2]", "none", false, false},
	{"string(['2020-01-02 00:00:00 UTC': 1, '2019-01-02 00:00:00 UTC': 2])", "none", false, false},
	{"union([m, m], [m])", "map", false, false},
	{"union([[1: 2, 3: 4, 5: 6]], [[5: 6, 3: 4, 1: 2]])", "none", false, false},
	{"intersect([mi], [mi])", "struct", false, false},
	{"diff([o, o], [])", "map", false, false},
	{"union(lo, lo)", "map", false, false},
	{"[m, m] == [m, m]", "map", false, false},
	{"string(p)", "map", false, false},
	{"p", "struct", false, false},
	{"[p, p]", "map", false, false},
	{"string(union(l, l))", "map", false, false},
	{"get(mo, \"u\", o)", "map", false, false},
	{"{x: get(mo, \"nope\", o), y: o}", "struct", false, false},
	{"[diff(l, [9]), l]", "map", false, false},
	{"[union(ls, ls), ls]", "struct", false, false},
	{"[intersect(l, l), l]", "map", false, false},
	{"string(l) + string(union(l, [1])) + string(l)", "map", false, false},
	{"l[2] + len(diff(l, [2]))", "struct", false, false},
	{"[0.25: \"a\", 0.5: \"b\", 0.75: \"c\", 1.5: \"d\", 1.25: \"e\"]", "none", false, false},
	{"string([2.5: true, 2: false, 3.25: true, 2.75: false])", "none", false, false},
	{"[x: 1, x + 0.5: 2, x - 0.25: 3, n: 4]", "map", false, false},
	{"[-1: \"a\", -1.5: \"b\", -0.5: \"c\", 1e3: \"d\", 0.001: \"e\"]", "none", false, false},
	{"[[x, 1], [2, 3]]", "map", false, false},
	{"[\"a\": [x], \"b\": [2], \"c\": [3]]", "struct", false, false},
	{"{id: [n], tags: [\"k\": 1, \"j\": 2], deep: {inner: [s]}}", "map", false, false},
	{"[[s: 1], [\"b\": 2]]", "map", false, false},
	{"[{a: [l[0]]}, {a: [2]}]", "struct", false, false},
	{"[\"a\": 1, \"a\": 2, \"b\": 3]", "none", false, false},
	{"string([\"a\": 1, \"b\": 3, \"a\": 2])", "none", false, false},
	{"[n: \"x\", 42: \"y\", 41 + 1: \"z\"]", "map", false, false},
	{"len([1: 1, 1: 2, 2: 3]) + get([1: 1, 1: 2], 1, 0)", "none", false, false},
	{"[m == m, mi == mi, mo == mo, [m, m] == [m, m]]", "map", false, false},
	{"[isset(mo, \"u\"), isset(mo, \"zz\"), get(mo, \"v\", o).id]", "struct", false, false},
	// a function that every engine with user functions registers under the SAME name with ANOTHER body
	{"tag(n) + 1", "map", true, false},
	{"[tag(1), tag(x)]", "struct", true, false},
	{"if(b, tag(n), 0) + len(l)", "map", true, false},
	// the user's overload of a built-in name next to the built-in ones
	{"len(p.b) + len(l) + len(m)", "map", true, false},
	{"[len(p.b), len(p.c), len(s)]", "struct", true, false},
	// one Go type, two typings (interface-typed containers holding numbers or strings)
	{"len(xs) + n", "ifaceA", false, false},
	{"xs[0]", "ifaceA", false, false},
	{"xs[0]", "ifaceB", false, false},
	{"string(params) + string(xs)", "ifaceB", false, false},
	{"params[\"k\"]", "ifaceA", false, false},
	{"[in.vals[0], xs[1]]", "ifaceB", false, false},
	{"string(in)", "ifaceA", false, false},
	{"get(params, \"zz\", xs[0])", "ifaceB", false, false},
	{"xs[0] + in.vals[0]", "ifaceA", false, false},
	// equality of two DIFFERENT values of the environment that have the same shape
	// (lists of equal length and unequal contents: mo.u.tags / mo.v.tags, and o.tags / ls in map2 / struct2)
	{"mo[\"u\"].tags == mo[\"v\"].tags", "map", false, false},
	{"mo[\"u\"].tags != mo[\"v\"].tags", "struct", false, false},
	{"[mo[\"u\"].tags == mo[\"v\"].tags, mo[\"v\"].tags == mo[\"u\"].tags, mo[\"u\"].tags != mo[\"v\"].tags]", "map", false, false},
	{"if(mo[\"u\"].tags == mo[\"v\"].tags, \"same\", \"differ\")", "map", false, false},
	{"o.tags == ls", "struct2", false, false},
	{"[o.tags == ls, o.tags != ls, ls == o.tags]", "map2", false, false},
	{"ll[0] == ll[1] || lo[0].tags == lo[1].tags", "struct", false, false},
	// EMPTY containers of the environment (map2 / struct2: mi is an empty map, ll[1] and
	// lo[1].tags are empty lists), rendered once, twice, nested
	{"string(mi)", "struct2", false, false},
	{"string([mi, mi])", "map2", false, false},
	{"string({a: mi, b: [mi], c: ll[1]})", "struct2", false, false},
	{"[string(mi), string(ll), string(mi)]", "map2", false, false},
	{"print([mi, mi])", "struct2", false, false},
	{"[mi, mi]", "map2", false, false},
	{"string(lo[1].tags) + string(ll[1]) + string(lo[1].tags)", "struct2", false, false},
	// one list value feeding two set operations: neither result may see the other's elements
	// (o.tags, ll, lo have no duplicates and lengths that are not powers of two in some environments)
	{"[union(o.tags, [\"q1\"]), union(o.tags, [\"q2\"])]", "map", false, false},
	{"[union(o.tags, [\"q1\", \"q2\"]), o.tags, union(o.tags, [\"q3\"])]", "struct", false, false},
	{"[union(ll, [[9]]), union(ll, [[8]])]", "map", false, false},
	{"union(o.tags, [s])", "map", false, false},
	{"union(o.tags, [s + s])", "struct", false, false},
	{"{a: union(lo, [lo[0]]), b: union(lo, lo), c: diff(o.tags, [\"y\"]), d: intersect(o.tags, o.tags)}", "map", false, false},
	// order of evaluation is the order of the source text: argument lists, literals, operands
	{"tr(1) + tr(2) * tr(3) - tr(4)", "none", true, false},
	{"{a: tr(1), b: tr(2), c: tr(3), d: tr(4)}", "none", true, false},
	{"{z: tr(\"z\"), a: tr(\"a\"), m: tr(\"m\")}", "none", true, false},
	{"[tr(\"k1\"): tr(1), tr(\"k2\"): tr(2), tr(\"k0\"): tr(3)]", "none", true, false},
	{"[tr(3), tr(1), tr(2), tr(1)]", "none", true, false},
	{"first([tr(3), tr(1), tr(2)], tr(9))", "none", true, false},
	{"inc(tr(1)) == inc(tr(1)) && tr(true) || tr(false)", "none", true, false},
	{"when(tr(b), tr(n), tr(x))", "map", true, false},
	{"print(1) + print(2) * print(3)", "none", false, false},
	{"[print(\"a\"), print(\"b\"), print(\"c\")]", "none", false, false},
	{"{z: print(1), a: print(2), m: print(3)}", "none", false, false},
	{"[print(\"k2\"): print(1), print(\"k1\"): print(2)]", "none", false, false},
	{"union([tr(1), tr(2)], [tr(2), tr(3)])", "none", true, false},
	{"get([tr(\"a\"): tr(1)], tr(\"a\"), tr(0)) + len([tr(5), tr(6)])", "none", true, false},
	// number-text law programs (see numLaw): near-equal but distinct numbers, alone and as map keys
	{"{numlaw_n: 0.1 + 0.2, numlaw_s: string(0.1 + 0.2)}", "none", false, false},
	{"{numlaw_n: 0.3, numlaw_s: string(0.3)}", "none", false, false},
	{"{numlaw_n: 0.1 + 0.7, numlaw_s: string(0.1 + 0.7)}", "none", false, false},
	{"{numlaw_n: 0.8, numlaw_s: string(0.8)}", "none", false, false},
	{"{numlaw_n: 0.2 + 0.4, numlaw_k: string([0.2 + 0.4: 1])}", "none", false, false},
	{"{numlaw_n: 0.6, numlaw_k: string([0.6: 1])}", "none", false, false},
	{"{numlaw_n: x / 3, numlaw_s: string(x / 3)}", "map", false, false},
	{"{numlaw_n: n / 7, numlaw_s: string(n / 7), numlaw_k: string([n / 7: 1])}", "struct", false, false},
	{"{numlaw_n: 1.1 * 3, numlaw_s: string(1.1 * 3)}", "none", false, false},
	{"{numlaw_n: 3.3, numlaw_k: string([3.3: 1])}", "none", false, false},
	{"{numlaw_n: 1e15 + 0.3, numlaw_s: string(1e15 + 0.3)}", "none", false, false},
	{"len([0.6: \"short\", 0.2 + 0.4: \"noisy\", 0.75: \"other\"]) + len([0.3: 1, 0.1 + 0.2: 2])", "none", false, false},
	{"n + 1", "hetero1", false, false},
	{"len(hm) + n", "hetero1", false, false},
	{"hm[\"a\"][0] + n", "hetero1", false, false},
	{"n + 1", "hetero2", false, false},
	{"hu[\"p\"].Name", "hetero2", false, false},
	{"len(hu)", "hetero2", false, false},
}

func pickProg13(r *rng, user bool) Prog {
	if r.chance(0.45) {
		for i := 0; i < 20; i++ {
			p := c13Extra[r.intn(len(c13Extra))]
			if !p.User || user {
				return p
			}
		}
	}
	for i := 0; i < 20; i++ {
		p := pickProg(r, user)
		if clockFree(p.Src) {
			return p
		}
	}
	return progPool[0]
}

// relative time forms are excluded: for them the property is false by construction.
var (
	reStrLit = regexp.MustCompile(`"[^"\\]*"`)
	reNumLit = regexp.MustCompile(`\b[0-9]+\b`)
)

// siblingSrc changes one literal of src (same variables, same shape, another constant).
func siblingSrc(src string, r *rng) (string, bool) {
	var locs [][]int
	strs := reStrLit.FindAllStringIndex(src, -1)
	locs = append(locs, strs...)
	inStr := func(i int) bool {
		for _, l := range strs {
			if i >= l[0] && i < l[1] {
				return true
			}
		}
		return false
	}
	if strings.Contains(src, "'") || strings.Contains(src, "`") {
		return "", false // time / raw-string literals: leave alone
	}
	for _, l := range reNumLit.FindAllStringIndex(src, -1) {
		if !inStr(l[0]) && (l[0] == 0 || src[l[0]-1] != '.') && (l[1] == len(src) || src[l[1]] != '.') {
			locs = append(locs, l)
		}
	}
	if len(locs) == 0 {
		return "", false
	}
	l := locs[r.intn(len(locs))]
	lit := src[l[0]:l[1]]
	var repl string
	if lit[0] == '"' {
		repl = lit[:len(lit)-1] + "2\""
	} else {
		n, err := strconv.Atoi(lit)
		if err != nil {
			return "", false
		}
		repl = strconv.Itoa(n + 1)
	}
	return src[:l[0]] + repl + src[l[1]:], true
}

func clockFree(src string) bool {
	for _, w := range []string{"now", "today", "tomorrow", "yesterday", "next", "last", "ago", "midnight", "noon"} {
		if strings.Contains(src, w) {
			return false
		}
	}
	return true
}

type evalCtx struct {
	cap *stdoutCapture
	rec *recorder
}

func (x *evalCtx) recFn() *recorder { return x.rec }

// observe runs f, capturing class, stdout and calls.
func (x *evalCtx) observe(stdoutFail bool, f func(o *obs)) (o obs) {
	x.rec.take()
	x.cap.read()
	var saved *os.File
	if stdoutFail {
		saved = os.Stdout
		bad, _ := os.Open(os.DevNull)
		bad.Close()
		os.Stdout = bad
	}
	func() {
		defer func() {
			if r := recover(); r != nil {
				if simrt.IsAbort(r) {
					panic(r)
				}
				o.Class = "panic"
				o.Panic = clip(fmt.Sprint(r))
			}
		}()
		f(&o)
	}()
	if stdoutFail {
		os.Stdout = saved
		o.Stdout = "<stdout-failed>"
		x.cap.read()
	} else {
		o.Stdout = x.cap.read()
	}
	o.Calls = strings.Join(x.rec.take(), ";")
	return o
}

func valObs(o *obs, v *val.Val, err error) {
	if err != nil {
		o.Class = "err"
		return
	}
	o.Class = "ok"
	o.Value = render(v)
	o.Text = v.String()
	o.held = v
	o.Law = numLaw(v)
}

// numLaw: the text of a number depends on that number only, so it must read back as exactly
// that number whatever else the process has converted before.  Checked on results of the
// form {numlaw_n: E, numlaw_s: string(E), numlaw_k: string([E: 1])}; "" when the law holds
// or does not apply.  (A history-vs-pristine comparison cannot see a process-wide memo of
// number texts: the pristine evaluation lives in the same process.)
func numLaw(v *val.Val) (bad string) {
	defer func() {
		if recover() != nil {
			bad = ""
		}
	}()
	if v == nil || v.Type.Kind != types.KObj {
		return ""
	}
	o := v.Obj()
	fs := o.Type.Obj().Fields
	var n float64
	has := false
	texts := map[string]string{}
	for i, f := range fs {
		if i >= len(o.V) {
			return ""
		}
		fv := o.V[i]
		if fv == nil || fv.Type == nil {
			return ""
		}
		switch {
		case f.Name == "numlaw_n" && fv.Type.Kind == types.KNum:
			n, has = fv.Num().V, true
		case f.Name == "numlaw_s" && fv.Type.Kind == types.KStr:
			texts["string(E)"] = fv.Str().V
		case f.Name == "numlaw_k" && fv.Type.Kind == types.KStr:
			t := fv.Str().V
			if j := strings.Index(t, ":"); strings.HasPrefix(t, "[") && j > 0 {
				texts["the key of string([E: 1])"] = strings.TrimSpace(t[1:j])
			} else {
				return fmt.Sprintf("string([E: 1]) = %q is not a one-entry map text", t)
			}
		}
	}
	if !has {
		return ""
	}
	for what, t := range texts {
		back, err := strconv.ParseFloat(t, 64)
		if err != nil || back != n {
			return fmt.Sprintf("%s = %q does not read back as the number itself (%s)", what, t, strconv.FormatFloat(n, 'g', 17, 64))
		}
	}
	return ""
}

type pkey struct {
	kind     string
	spec     EngineSpec
	src      string
	cenv     string
	ienv     string
}

// pristine evaluation: fresh engine, fresh carriers, no faults.
func (x *evalCtx) pristine(k pkey) obs {
	switch k.kind {
	case "compile":
		return x.observe(false, func(o *obs) {
			e := buildEngine(k.spec, x.recFn)
			_, err := e.Compile(k.src, envMakers[k.cenv]())
			if err != nil {
				o.Class = "cerr"
			} else {
				o.Class = "ok"
			}
		})
	case "invoke":
		var c yae.Callable
		x.observe(false, func(o *obs) {
			e := buildEngine(k.spec, x.recFn)
			c, _ = e.Compile(k.src, envMakers[k.cenv]())
		})
		if c == nil {
			return obs{Class: "skip"}
		}
		return x.observe(false, func(o *obs) {
			v, dbg, err := callWith(k.spec, c, envMakers[k.ienv]())
			valObs(o, v, err)
			o.Debug = dbg
		})
	case "split":
		return x.observe(false, func(o *obs) {
			e := buildEngine(k.spec, x.recFn)
			splitRun(o, e, k.spec, nil, k.src, k.cenv)
		})
	case "eval":
		return x.observe(false, func(o *obs) {
			v, err := yae.Eval(k.src, envMakers[k.cenv]())
			valObs(o, v, err)
		})
	case "debug":
		return x.observe(false, func(o *obs) {
			v, txt, err := yae.Debug(k.src, envMakers[k.cenv]())
			valObs(o, v, err)
			o.Debug = txt
		})
	}
	return obs{Class: "?"}
}

func (h *Hist13) keys() []pkey {
	var ks []pkey
	for _, op := range h.Ops {
		switch op.K {
		case "compile", "bulk":
			ks = append(ks, pkey{"compile", h.Engines[op.Eng], op.Prog.Src, op.Prog.Env, ""})
		case "bulkinvoke":
			ks = append(ks, pkey{"invoke", h.Engines[op.Eng], op.Prog.Src, op.Prog.Env, op.Prog.Env})
		case "invoke":
			c := h.Ops[op.C]
			if c.K != "compile" {
				ks = append(ks, pkey{})
				continue
			}
			ks = append(ks, pkey{"invoke", h.Engines[c.Eng], c.Prog.Src, c.Prog.Env, op.Env})
		case "split":
			ks = append(ks, pkey{"split", h.Engines[op.Eng], op.Prog.Src, op.Prog.Env, ""})
		case "eval", "debug":
			ks = append(ks, pkey{op.K, EngineSpec{}, op.Prog.Src, op.Prog.Env, ""})
		default:
			ks = append(ks, pkey{})
		}
	}
	return ks
}

type hist13Result struct {
	RawEdits  int
	RawRetypes int
	Composed   int
	FreshChecked bool
	Reentries int
	GCBefore  int
	Viol     *Violation
	Sim      simrt.Result
	Reused   int
	Ops      int
}

func runHist13(h *Hist13, x *evalCtx) hist13Result {
	var res hist13Result
	nameClass("") // computed outside the simulated run
	keys := h.keys()
	// the second pristine table is computed in REVERSE order: an evaluation whose outcome
	// depends on what the process evaluated just before it shows up as t1 != t2
	table := func(rev bool) map[pkey]obs {
		t := map[pkey]obs{}
		for j := range keys {
			k := keys[j]
			if rev {
				k = keys[len(keys)-1-j]
			}
			if k.kind == "" {
				continue
			}
			if _, ok := t[k]; !ok {
				t[k] = x.pristine(k)
			}
		}
		return t
	}
	t1 := table(false)
	if h.Fresh {
		res.FreshChecked = true
		if v := freshProcessCheck(keys, t1); v != nil {
			res.Viol = v
			return res
		}
	}

	got := make([]obs, len(h.Ops))
	hostChanged := make([]string, len(h.Ops))
	var composeViol *Violation
	body := func() {
		engines := make([]*yae.Expr, len(h.Engines))
		for i, spec := range h.Engines {
			engines[i] = buildEngine(spec, x.recFn)
		}
		calls := map[int]yae.Callable{}
		reused := map[string]interface{}{}
		rawT := map[string]*types.Env{}
		rawV := map[string]*val.Env{}
		parsedTrees := map[string]ast.Expr{} // (engine, source) -> tree kept by the host, see "split"
		rawHas := map[string]string{}
		rawTHas := map[string]string{}
		rawTGen := map[string]int{}
		type rawUse struct {
			class string
			gen   int
		}
		compRaw := map[int]rawUse{}
		lastRawClass := ""
		// "inplace": ONE host object per typing class whose contents are overwritten before
		// every use (what a host does with a long-lived request struct / map): anything
		// cached by the identity of the host object sees stale contents
		inplaceMap := map[string]map[string]interface{}{}
		inplaceStd, inplaceAlt := &EnvStruct{}, &EnvStruct2{}
		carrier := func(kind, name string, forCompile bool) (interface{}, string, interface{}) {
			if kind == "inplace" {
				fresh := envMakers[name]()
				switch f := fresh.(type) {
				case map[string]interface{}:
					class := "other:" + name
					if st := sameTyped[name]; len(st) > 0 {
						class = st[0]
					}
					m, ok := inplaceMap[class]
					if !ok {
						m = map[string]interface{}{}
						inplaceMap[class] = m
					} else {
						res.Reused++
					}
					// containers of equal shape keep their identity, elements are overwritten
					deepAssign(reflect.ValueOf(m), reflect.ValueOf(f))
					return m, "", nil
				case *EnvStruct:
					if inplaceStd.L == nil {
						*inplaceStd = *f
					} else {
						deepAssign(reflect.ValueOf(inplaceStd), reflect.ValueOf(f))
					}
					res.Reused++
					return inplaceStd, "", nil
				case *EnvStruct2:
					if inplaceAlt.L == nil {
						*inplaceAlt = *f
					} else {
						deepAssign(reflect.ValueOf(inplaceAlt), reflect.ValueOf(f))
					}
					res.Reused++
					return inplaceAlt, "", nil
				}
				return fresh, "", nil
			}
			switch kind {
			case "reused":
				v, ok := reused[name]
				if !ok {
					v = envMakers[name]()
					reused[name] = v
				} else {
					res.Reused++
				}
				return v, deepSnapshot(v), v
			case "raw":
				if forCompile {
					// one raw *types.Env per set of NAMES: asked for another typing of the same
					// names, the object is retyped in place through its own setter (a host that
					// keeps one type environment and re-declares its variables).  Callables
					// compiled against it before the edit are dropped: the library checks an
					// invocation against the live object, so using them afterwards is the host's
					// own mistake, not an observation about the library.
					class := nameClass(name)
					lastRawClass = class
					e, ok := rawT[class]
					if !ok {
						var err error
						e, err = conv.TypeEnvOf(envMakers[name]())
						if err != nil {
							lastRawClass = ""
							return envMakers[name](), "", nil
						}
						rawT[class] = e
						rawTHas[class] = name
					} else {
						res.Reused++
						if rawTHas[class] != name {
							if want, err := conv.TypeEnvOf(envMakers[name]()); err == nil {
								want.ForEach(func(k string, ty *types.Type) { e.Put(k, ty) })
								rawTHas[class] = name
								rawTGen[class]++
								res.RawRetypes++
							} else {
								lastRawClass = ""
								return envMakers[name](), "", nil
							}
						}
					}
					return e, "", nil
				}
				// one raw *val.Env per SHAPE class: asked for other contents of the same shape, the
				// value trees inside it are updated in place through the library's own setters
				// (containers keep their identity, as when a host edits a long-lived environment)
				class := shapeClass(name)
				e, ok := rawV[class]
				if !ok {
					var err error
					e, err = conv.ValEnvOf(envMakers[name]())
					if err != nil {
						return envMakers[name](), "", nil
					}
					// a hand-built environment: its lists have been grown by appending (ListVal.Add),
					// so their backing arrays have room beyond their length
					e.ForEach(func(_ string, v *val.Val) { spareLists(v, 0) })
					rawV[class] = e
					rawHas[class] = name
				} else {
					res.Reused++
					if rawHas[class] != name {
						if want, err := conv.ValEnvOf(envMakers[name]()); err == nil {
							want.ForEach(func(k string, nv *val.Val) {
								if old, ok := e.Get(k); ok && valAssign(old, nv) {
									return
								}
								e.Put(k, nv)
							})
							rawHas[class] = name
							res.RawEdits++
							// results handed out earlier may share structure with this environment's
							// values; the host has just edited those values itself, so such results
							// legitimately changed: stop holding them to their first rendering
							for gi := range got {
								got[gi].held = nil
							}
						}
					}
				}
				return e, "", nil
			}
			return envMakers[name](), "", nil
		}
		// a Callable is dropped after its last use, so that what it keeps alive (its
		// compile-time environment) can be collected and its address reused
		lastUse := map[int]int{}
		for i, op := range h.Ops {
			if op.K == "invoke" {
				lastUse[op.C] = i
			}
		}
		for i := range h.Ops {
			if i > 0 {
				prev := h.Ops[i-1]
				if prev.K == "invoke" && lastUse[prev.C] == i-1 {
					delete(calls, prev.C)
				}
				if prev.K == "compile" {
					if _, used := lastUse[i-1]; !used {
						delete(calls, i-1)
					}
				}
			}
			op := &h.Ops[i]
			res.Ops++
			if op.GCBefore {
				runtime.GC()
				res.GCBefore++
			}
			switch op.K {
			case "compile":
				lastRawClass = ""
				env, snap, host := carrier(op.Carrier, op.Prog.Env, true)
				if lastRawClass != "" {
					compRaw[i] = rawUse{lastRawClass, rawTGen[lastRawClass]}
				}
				got[i] = x.observe(op.StdoutFail, func(o *obs) {
					c, err := engines[op.Eng].Compile(op.Prog.Src, env)
					if err != nil {
						o.Class = "cerr"
						return
					}
					o.Class = "ok"
					calls[i] = c
				})
				if host != nil && deepSnapshot(host) != snap {
					hostChanged[i] = "host value modified by Compile"
				}
			case "invoke":
				c := calls[op.C]
				if cr, ok := compRaw[op.C]; ok && rawTGen[cr.class] != cr.gen {
					// its raw type environment has been retyped since: not used any more
					got[i] = obs{Class: "dropped"}
					continue
				}
				if c == nil {
					got[i] = obs{Class: "skip"}
					continue
				}
				env, snap, host := carrier(op.Carrier, op.Env, false)
				cspec := h.Engines[h.Ops[op.C].Eng]
				if op.Reenter {
					other := "map2"
					if st := sameTyped[op.Env]; len(st) > 0 {
						other = st[(indexOf(st, op.Env)+2)%len(st)]
					}
					x.rec.hook = func() {
						res.Reentries++
						callWith(cspec, c, envMakers[other]())
					}
				}
				got[i] = x.observe(op.StdoutFail, func(o *obs) {
					v, dbg, err := callWith(cspec, c, env)
					valObs(o, v, err)
					o.Debug = dbg
				})
				x.rec.hook = nil
				if host != nil && deepSnapshot(host) != snap {
					hostChanged[i] = "host value modified by invocation"
				}
			case "eval":
				env, snap, host := carrier(op.Carrier, op.Prog.Env, false)
				if op.Carrier == "raw" {
					env, host = envMakers[op.Prog.Env](), nil
				}
				got[i] = x.observe(op.StdoutFail, func(o *obs) {
					v, err := yae.Eval(op.Prog.Src, env)
					valObs(o, v, err)
				})
				if host != nil && deepSnapshot(host) != snap {
					hostChanged[i] = "host value modified by Eval"
				}
			case "split":
				// the two-step API: the engine parses a source text ONCE (Expr.Parse) and the
				// host keeps the tree; every operation compiles that same tree again
				// (Expr.CompileExpr) against the type environment of its own typing
				key := fmt.Sprint(op.Eng) + "|" + op.Prog.Src
				got[i] = x.observe(false, func(o *obs) {
					splitRun(o, engines[op.Eng], h.Engines[op.Eng], func(parse func() ast.Expr) ast.Expr {
						if t, ok := parsedTrees[key]; ok {
							res.Reused++
							return t
						}
						t := parse()
						parsedTrees[key] = t
						return t
					}, op.Prog.Src, op.Prog.Env)
				})
			case "debug":
				env := envMakers[op.Prog.Env]()
				got[i] = x.observe(op.StdoutFail, func(o *obs) {
					v, txt, err := yae.Debug(op.Prog.Src, env)
					valObs(o, v, err)
					o.Debug = txt
				})
			case "bulkinvoke":
				// N rounds of compile + invoke of one source under one typing, every Callable
				// dropped at once; every round is observed separately and must give the
				// pristine result (the first deviating round is what gets compared)
				env0 := op.Prog.Env
				cspec := h.Engines[op.Eng]
				for j := 0; j < op.N; j++ {
					cerr := false
					r := x.observe(false, func(o *obs) {
						c, err := engines[op.Eng].Compile(op.Prog.Src, envMakers[env0]())
						if err != nil {
							cerr = true
							return
						}
						v, dbg, err := callWith(cspec, c, envMakers[env0]())
						valObs(o, v, err)
						o.Debug = dbg
					})
					if cerr {
						// ill-typed under this typing: like the pristine table, nothing to invoke
						r = obs{Class: "skip"}
					}
					if j == 0 {
						got[i] = r
					} else if diffObs(got[i], r, false) != "" {
						got[i] = r
						break
					}
				}
			case "bulk":
				// N compilations of one source against fresh, equally typed environments;
				// the Callables are dropped at once (many dead compile-time environments)
				got[i] = x.observe(false, func(o *obs) {
					o.Class = "ok"
					for j := 0; j < op.N; j++ {
						if _, err := engines[op.Eng].Compile(op.Prog.Src, envMakers[op.Prog.Env]()); err != nil {
							o.Class = "cerr"
						}
					}
				})
			case "compose":
				// compositionality: the fields of {a: P1, b: P2} are the values of P1 and of P2.
				// All three are evaluated here and now on fresh engines with fresh inputs, so
				// the law is independent of the pristine table (and sees components that
				// disturb each other inside ONE evaluation, where history and pristine agree)
				spec := h.Engines[op.Eng]
				one := func(src string) obs {
					return x.observe(false, func(o *obs) {
						c, err := buildEngine(spec, x.recFn).Compile(src, envMakers[op.Prog.Env]())
						if err != nil {
							o.Class = "cerr"
							return
						}
						v, _, err := callWith(spec, c, envMakers[op.Prog.Env]())
						valObs(o, v, err)
						o.held = nil
					})
				}
				a, b := one(op.Prog.Src), one(op.Prog2.Src)
				if a.Class == "ok" && composeViol == nil {
					// repeat law: the same sub-expression twice in one evaluation is the same value twice
					res.Composed++
					rp := one("[(" + op.Prog.Src + "), (" + op.Prog.Src + ")]")
					if want := "[" + a.Value + "," + a.Value + "]"; rp.Class != "ok" || rp.Value != want {
						composeViol = &Violation{"law", "c13:repeat-law:" + rp.Class,
							fmt.Sprintf("op %d (engine=%+v, env=%s): [P, P] is not the value of P twice\n P = %s\n P alone: %s\n [P, P]  : class=%s %s",
								i, spec, op.Prog.Env, op.Prog.Src, clip(a.Value), rp.Class, clip(rp.Value))}
					}
				}
				if a.Class == "ok" && b.Class == "ok" {
					res.Composed++
					c := one("{a: (" + op.Prog.Src + "), b: (" + op.Prog2.Src + ")}")
					want := "{a:" + a.Value + ",b:" + b.Value + "}"
					if (c.Class != "ok" || c.Value != want) && composeViol == nil {
						composeViol = &Violation{"law", "c13:compose-law:" + c.Class,
							fmt.Sprintf("op %d (engine=%+v, env=%s): the object literal {a: P1, b: P2} does not hold the values of its components\n P1 = %s\n P2 = %s\n P1 alone: %s\n P2 alone: %s\n composed: class=%s %s",
								i, spec, op.Prog.Env, op.Prog.Src, op.Prog2.Src, clip(a.Value), clip(b.Value), c.Class, clip(c.Value))}
					}
					// the same two fields written in the other order: field order is not part of an
					// object type, but each value belongs to the NAME it was written with
					sw := one("{b: (" + op.Prog2.Src + "), a: (" + op.Prog.Src + ")}")
					ma := one("{b: (" + op.Prog2.Src + "), a: (" + op.Prog.Src + ")}.a")
					w1, w2 := "{b:"+b.Value+",a:"+a.Value+"}", want
					if composeViol == nil && (sw.Class != "ok" || sw.Value != w1 && sw.Value != w2 || ma.Class != "ok" || ma.Value != a.Value) {
						composeViol = &Violation{"law", "c13:compose-law-swapped:" + sw.Class,
							fmt.Sprintf("op %d (engine=%+v, env=%s): the object literal {b: P2, a: P1} does not hold the values of its components under their names\n P1 = %s\n P2 = %s\n P1 alone: %s\n P2 alone: %s\n {b: P2, a: P1}: class=%s %s\n {b: P2, a: P1}.a: class=%s %s",
								i, spec, op.Prog.Env, op.Prog.Src, op.Prog2.Src, clip(a.Value), clip(b.Value), sw.Class, clip(sw.Value), ma.Class, clip(ma.Value))}
					}
				}
			case "interfere":
				r := newRng(uint64(i), uint64(op.N), h.Sim.Seed)
				for j := 0; j < op.N; j++ {
					p := pickProg(r, true)
					func() {
						defer func() {
							if rr := recover(); rr != nil && simrt.IsAbort(rr) {
								panic(rr)
							}
						}()
						e := buildEngine(EngineSpec{pickBackend(r), true, 0, false}, x.recFn)
						if c, err := e.Compile(p.Src, envMakers[p.Env]()); err == nil && j%2 == 0 {
							c(envMakers[p.Env]())
						}
					}()
				}
				x.cap.read()
				x.rec.take()
			}
			simrt.Mix(got[i].Class)
			simrt.Mix(got[i].Value)
		}
	}
	res.Sim = simrt.Run(h.Sim, body)
	if composeViol != nil {
		res.Viol = composeViol
		return res
	}
	// a value handed back to the caller is the caller's: later operations must not change it
	for i := range got {
		if got[i].held != nil && res.Viol == nil {
			if now := render(got[i].held); now != got[i].Value {
				res.Viol = &Violation{"mutated", "c13:result-changed-later:" + h.Ops[i].K,
					fmt.Sprintf("op %d: the value returned to the caller rendered %s when it was returned and %s after the rest of the history ran", i, clip(got[i].Value), clip(now))}
			}
		}
	}
	if res.Viol != nil {
		return res
	}
	if res.Sim.TaskPanics[0] != nil {
		if simrt.IsAbort(res.Sim.TaskPanics[0]) {
			res.Viol = &Violation{"stall", "c13:stall", "step cap exceeded inside a history"}
			return res
		}
		harnessFatal("c13: panic escaped the history body: %v", res.Sim.TaskPanics[0])
	}
	t2 := table(true)

	for i, k := range keys {
		if k.kind == "" {
			continue
		}
		op := h.Ops[i]
		a, b := t1[k], t2[k]
		src := k.src
		if asp := diffObs(a, b, false); asp != "" {
			res.Viol = &Violation{"pristine", "c13:unstable-" + asp + ":" + op.K,
				fmt.Sprintf("two fault-free evaluations of %s %q on fresh engines and fresh inputs differ in %s:\n first : %s\n second: %s", op.K, src, asp, a, b)}
			return res
		}
		g := got[i]
		if g.Class == "dropped" {
			continue
		}
		if asp := diffObs(a, g, op.StdoutFail); asp != "" {
			res.Viol = &Violation{"history", "c13:" + asp + ":" + op.K + ":" + op.Carrier,
				fmt.Sprintf("op %d (%s %q, carrier=%s, env=%s, engine=%+v): %s differs from the pristine evaluation\n pristine: %s\n history : %s",
					i, op.K, src, op.Carrier, k.cenv+"/"+k.ienv, k.spec, asp, a, g)}
			return res
		}
		for _, o := range []obs{a, g} {
			if o.Law != "" {
				res.Viol = &Violation{"law", "c13:number-text-law:" + op.K,
					fmt.Sprintf("op %d (%s %q): %s", i, op.K, src, o.Law)}
				return res
			}
		}
		if hostChanged[i] != "" {
			res.Viol = &Violation{"history", "c13:host-modified:" + op.K, fmt.Sprintf("op %d (%s %q): %s", i, op.K, src, hostChanged[i])}
			return res
		}
		// stdout discipline on the pristine entry itself
		if !strings.Contains(src, "print") && a.Stdout != "" {
			res.Viol = &Violation{"stdout", "c13:stdout-without-print:" + op.K,
				fmt.Sprintf("%s %q wrote to standard output although it does not call print: %q", op.K, src, clip(a.Stdout))}
			return res
		}
	}
	return res
}

// diffObs names the first observable in which two observations differ.
func diffObs(a, b obs, stdoutFailed bool) string {
	switch {
	case a.Class != b.Class:
		return "class"
	case a.Value != b.Value:
		return "value"
	case a.Text != b.Text:
		return "text"
	case a.Calls != b.Calls:
		return "calls"
	case !stdoutFailed && a.Stdout != b.Stdout:
		return "stdout"
	case a.Debug != b.Debug:
		return "debug"
	}
	return ""
}

// ---------------------------------------------------------------------------

func genHist13(r *rng) *Hist13 {
	h := &Hist13{}
	ne := 1 + r.intn(3)
	for i := 0; i < ne; i++ {
		spec := EngineSpec{pickBackend(r), r.chance(0.6), 0, false}
		if spec.UserFuns {
			spec.Tag = 1000 * (i + 1) // same name, another function on every engine
			spec.Late = r.chance(0.35)
		}
		h.Engines = append(h.Engines, spec)
	}
	n := 6 + r.intn(30)
	var compiles []int
	carriers := []string{"fresh", "reused", "inplace", "raw"}
	for len(h.Ops) < n {
		i := len(h.Ops)
		switch c := r.intn(12); {
		case c < 4 || len(compiles) == 0:
			e := r.intn(ne)
			var p Prog
			if len(compiles) > 0 && r.chance(0.3) {
				prev := h.Ops[compiles[r.intn(len(compiles))]]
				p = *prev.Prog // recompile the same source text ...
				if r.chance(0.7) {
					e = prev.Eng // ... on the same engine ...
				}
				if p.Generic && r.chance(0.7) {
					p.Env = genericEnvs[r.intn(len(genericEnvs))] // ... under another typing of its names
				}
				if strings.HasPrefix(p.Env, "iface") && r.chance(0.6) {
					p.Env = map[string]string{"ifaceA": "ifaceB", "ifaceA2": "ifaceB", "ifaceB": "ifaceA"}[p.Env]
				}
				if p.User && !h.Engines[e].UserFuns {
					p = pickProg13(r, false)
				}
			} else {
				p = pickProg13(r, h.Engines[e].UserFuns)
			}
			h.Ops = append(h.Ops, H13Op{K: "compile", Eng: e, Prog: &p, Carrier: carriers[r.intn(4)], StdoutFail: r.chance(0.03)})
			compiles = append(compiles, i)
		case c < 9:
			ci := compiles[r.intn(len(compiles))]
			env := h.Ops[ci].Prog.Env
			if st := sameTyped[env]; len(st) > 0 && r.chance(0.45) {
				env = st[r.intn(len(st))] // same types, possibly other contents / another carrier
			} else if r.chance(0.15) {
				env = envNames[r.intn(len(envNames))]
			}
			iop := H13Op{K: "invoke", C: ci, Env: env, Carrier: carriers[r.intn(4)], StdoutFail: r.chance(0.05)}
			cp := h.Ops[ci].Prog
			if h.Engines[h.Ops[ci].Eng].UserFuns && h.Engines[h.Ops[ci].Eng].Backend != "dbg" && strings.Contains(cp.Src, "tr(") && !strings.Contains(cp.Src, "print") && r.chance(0.5) {
				iop.Reenter, iop.StdoutFail = true, false
			}
			h.Ops = append(h.Ops, iop)
		case c < 10:
			p := pickProg13(r, false)
			h.Ops = append(h.Ops, H13Op{K: "eval", Prog: &p, Carrier: carriers[r.intn(3)]})
		case c < 11:
			p := pickProg13(r, false)
			if strings.Contains(p.Src, "\n") {
				continue
			}
			h.Ops = append(h.Ops, H13Op{K: "debug", Prog: &p})
		default:
			h.Ops = append(h.Ops, H13Op{K: "interfere", N: 1 + r.intn(4)})
		}
	}
	if r.chance(0.3) {
		// the two-step API on a kept tree: one generic source, parsed once per engine, compiled
		// several times under different typings
		e := r.intn(ne)
		p := Prog{Src: genericSrcs[r.intn(len(genericSrcs))], Generic: true}
		for j := 0; j < 2+r.intn(4); j++ {
			q := p
			q.Env = genericEnvs[r.intn(len(genericEnvs))]
			if r.chance(0.2) {
				e = r.intn(ne)
			}
			h.Ops = append(h.Ops, H13Op{K: "split", Eng: e, Prog: &q})
		}
	}
	if r.chance(0.25) {
		// the one-shot entry points with ONE source text under several typings (the
		// environments are all map[string]interface{} on the Go side)
		p := Prog{Src: genericSrcs[r.intn(len(genericSrcs))], Generic: true}
		if !strings.Contains(p.Src, "\n") {
			for j := 0; j < 2+r.intn(3); j++ {
				q := p
				q.Env = []string{"map", "alt", "alt2", "map2"}[r.intn(4)]
				h.Ops = append(h.Ops, H13Op{K: []string{"debug", "debug", "eval"}[r.intn(3)], Prog: &q, Carrier: "fresh"})
			}
		}
	}
	if ne >= 2 && r.chance(0.3) {
		// one source that calls the per-engine function `tag`, compiled on TWO engines that
		// both have one, both Callables invoked on ONE raw environment object: what one
		// engine's Callable leaves in the environment is none of the other's business
		var us []int
		for i, sp := range h.Engines {
			if sp.Tag != 0 {
				us = append(us, i)
			}
		}
		if len(us) >= 2 {
			p := Prog{Src: r.pick([]string{"tag(n) + 1", "[tag(1), tag(x)]", "if(b, tag(n), 0) + len(l)", "tag(len(l)) * 2"}), Env: "map", User: true}
			for round := 0; round < 2; round++ {
				for _, e := range us[:2] {
					q := p
					h.Ops = append(h.Ops, H13Op{K: "compile", Eng: e, Prog: &q, Carrier: "fresh"})
					h.Ops = append(h.Ops, H13Op{K: "invoke", C: len(h.Ops) - 1, Env: "map", Carrier: "raw"})
				}
			}
		}
	}
	if r.chance(0.5) {
		// compose: a program and a sibling of it (one literal changed, same variables), or
		// another program over the same environment, as the two fields of an object literal
		e := r.intn(ne)
		for tries := 0; tries < 10; tries++ {
			p1 := pickProg13(r, h.Engines[e].UserFuns)
			if !clockFree(p1.Src) || strings.Contains(p1.Src, "\n") || strings.Contains(p1.Src, "print") {
				continue
			}
			p2 := p1
			if sib, ok := siblingSrc(p1.Src, r); ok && r.chance(0.7) {
				p2.Src = sib
			} else {
				q := pickProg13(r, h.Engines[e].UserFuns)
				if q.Env != p1.Env && q.Env != "none" || !clockFree(q.Src) || strings.Contains(q.Src, "\n") || strings.Contains(q.Src, "print") {
					continue
				}
				p2.Src = q.Src
			}
			h.Ops = append(h.Ops, H13Op{K: "compose", Eng: e, Prog: &p1, Prog2: &p2})
			if r.chance(0.5) {
				break
			}
		}
	}
	if r.chance(0.4) {
		// churn: the same generic source compiled again and again on ONE engine under
		// alternating typings, a collection between the rounds (stale caches keyed by
		// addresses or by source text alone)
		e := r.intn(ne)
		p := pickGeneric(r, h.Engines[e].UserFuns)
		rounds := 3 + r.intn(6)
		if r.chance(0.75) {
			// many dead compilations under one typing, a collection, many attempts under another
			ea := genericEnvs[r.intn(len(genericEnvs))]
			eb := genericEnvs[(indexOf(genericEnvs, ea)+2+2*r.intn(2))%len(genericEnvs)] // the other typing class
			q1, q2 := p, p
			q1.Env, q2.Env = ea, eb
			h.Ops = append(h.Ops, H13Op{K: "bulk", Eng: e, Prog: &q1, N: 30 + r.intn(90)})
			h.Ops = append(h.Ops, H13Op{K: "bulkinvoke", Eng: e, Prog: &q2, N: 10 + r.intn(30), GCBefore: true})
			if r.chance(0.5) {
				h.Ops = append(h.Ops, H13Op{K: "bulkinvoke", Eng: e, Prog: &q1, N: 10 + r.intn(20), GCBefore: true})
			}
		}
		// ... sometimes all against ONE raw type environment that is retyped in place
		// between the rounds (stale caches keyed by the identity of the environment)
		cc := "fresh"
		if r.chance(0.35) {
			cc = "raw"
		}
		for j := 0; j < rounds; j++ {
			q := p
			q.Env = genericEnvs[r.intn(len(genericEnvs))]
			h.Ops = append(h.Ops, H13Op{K: "compile", Eng: e, Prog: &q, Carrier: cc, GCBefore: r.chance(0.7)})
			h.Ops = append(h.Ops, H13Op{K: "invoke", C: len(h.Ops) - 1, Env: q.Env, Carrier: carriers[r.intn(4)]})
		}
	}
	for i := range h.Ops {
		if r.chance(0.08) {
			h.Ops[i].GCBefore = true
		}
	}
	// sticky process-wide state is only visible from outside the process; histories that render
	// host time values (zone text) get the fresh-process comparison more often
	ff := r.float()
	h.Fresh = ff < 0.04
	if !h.Fresh && ff < 0.15 {
		for i := range h.Ops {
			if p := h.Ops[i].Prog; p != nil && timeIdent.MatchString(p.Src) {
				h.Fresh = true
				break
			}
		}
	}
	h.Sim = simrt.Config{Seed: r.u64() | 1, ClockSeam: true, ClockBase: 1500000000 + int64(r.intn(400000000)), MaxSteps: 20_000_000}
	h.Sim.MapMode = []int{simrt.MapShuffle, simrt.MapShuffle, simrt.MapReverse, simrt.MapRotate, simrt.MapSorted}[r.intn(5)]
	h.Sim.MapParam = 1 + r.intn(5)
	h.Sim.GCAlloc = []int{0, 64, 256}[r.intn(3)]
	if r.chance(0.5) {
		h.Sim.Knobs = map[string]int{"vm.stackInit": []int{1, 2, 3, 42}[r.intn(4)], "vm.stackGrow": []int{1, 2, 500}[r.intn(3)]}
	}
	// faults: placed at step indices inside the history (estimated length: ~3000 yields / op)
	est := uint64(len(h.Ops)) * 2500
	nf := r.intn(6)
	for i := 0; i < nf; i++ {
		f := simrt.Fault{Step: 1 + r.u64()%est}
		if r.chance(0.4) {
			f.Kind = "gc"
		} else {
			f.Kind = "clock"
			f.Arg = []int64{1, -1, 3600, -86400, 86400 * 365, -86400 * 3650, 86400 * 40000}[r.intn(7)]
		}
		h.Sim.Faults = append(h.Sim.Faults, f)
	}
	sortFaults(h.Sim.Faults)
	return h
}

// shapeClass: environments whose value trees have the same shape (lengths, key sets, types).
// nameClass: environments binding exactly the same names (whatever their types) share a class.
var (
	nameClassOnce sync.Once
	nameClasses   map[string]string
)

func nameClass(name string) string {
	nameClassOnce.Do(func() {
		nameClasses = map[string]string{}
		for n, mk := range envMakers {
			te, err := conv.TypeEnvOf(mk())
			if err != nil {
				nameClasses[n] = "only:" + n
				continue
			}
			var ks []string
			te.ForEach(func(k string, _ *types.Type) { ks = append(ks, k) })
			sort.Strings(ks)
			nameClasses[n] = strings.Join(ks, ",")
		}
	})
	if c, ok := nameClasses[name]; ok {
		return c
	}
	return "only:" + name
}

func shapeClass(name string) string {
	switch name {
	case "map", "struct", "map3", "struct3", "mixn":
		return "std-shape"
	case "map2", "struct2":
		return "std2-shape"
	case "alt", "altstruct":
		return "alt-shape"
	case "alt2", "alt2struct":
		return "alt2-shape"
	case "structR":
		return "stdR-shape" // same shapes as the standard one, but objects are laid out (and rendered) in another field order
	}
	return name
}

// valAssign makes dst hold the contents of src IN PLACE using the library's setters
// (ListVal.Set, MapVal.Put, ObjVal.Put); false when the shapes differ.
func valAssign(dst, src *val.Val) bool {
	if dst == nil || src == nil || dst.Type.Kind != src.Type.Kind {
		return false
	}
	switch dst.Type.Kind {
	case types.KList:
		d, s := dst.List(), src.List()
		if len(d.V) != len(s.V) {
			return false
		}
		for i := range d.V {
			if !valAssign(d.V[i], s.V[i]) {
				d.Set(i, s.V[i])
			}
		}
		return true
	case types.KMap:
		d, s := dst.Map(), src.Map()
		if len(d.V) != len(s.V) {
			return false
		}
		for k := range s.V {
			if _, ok := d.V[k]; !ok {
				return false
			}
		}
		for k, nv := range s.V {
			if !valAssign(d.V[k], nv) {
				d.V[k] = nv
			}
		}
		return true
	case types.KObj:
		d, s := dst.Obj(), src.Obj()
		if len(d.V) != len(s.V) {
			return false
		}
		fs := d.Type.Obj().Fields
		for i := range d.V {
			nv, ok := s.Get(fs[i].Name)
			if !ok {
				return false
			}
			if !valAssign(d.V[i], nv) {
				d.Put(fs[i].Name, nv)
			}
		}
		return true
	}
	return false // scalars and optionals are replaced by the caller
}

func indexOf(xs []string, x string) int {
	for i, y := range xs {
		if y == x {
			return i
		}
	}
	return 0
}

func sortFaults(fs []simrt.Fault) {
	for i := 1; i < len(fs); i++ {
		for j := i; j > 0 && fs[j].Step < fs[j-1].Step; j-- {
			fs[j], fs[j-1] = fs[j-1], fs[j]
		}
	}
}

// ---------------------------------------------------------------------------
// driver

type c13 struct{}

func init() { drivers["C13"] = c13{} }

func (c13) ID() string             { return "C13" }
func (c13) NeedsTZ() bool          { return true }
func (c13) BatchSize(string) int   { return 150 }
func (c13) Rule() string {
	return "a case is one history of 6-35 operations (compile / invoke / eval / debug / interfere) by a single simulated task over 1-3 pooled engines " +
		"(4 back ends, with/without user functions), pooled callables and environment carriers that are fresh, reused Go values, or reused raw *types.Env / *val.Env objects; " +
		"the simulator owns map iteration order (shuffle / reverse / rotate / sorted), the clock (jumps of seconds to centuries at yield points), GC instants, stdout (capture, injected failure), VM knobs and TZ (per worker process); " +
		"each operation is compared (class, value by own walker, String() text, host-call trace, stdout, debug report, host data snapshot) with a pristine fault-free evaluation on a fresh engine, taken before and after the history; " +
		"evaluations = histories; non-trivial = at least one non-identity permutation was applied to a map of >=2 entries and at least one object was reused; distinct = distinct event-log hashes"
}
func (c13) Assumptions() []string {
	return []string{
		"relative time forms (now, today, tomorrow, ...) are excluded from programs: for them the property is false by construction",
		"error texts and renderings of function values are not compared",
		"the pristine oracle is the implementation itself under neutral conditions (sorted hash order, no faults), checked for stability by evaluating it twice; it decides determinism / reusability / side-effect freedom, not functional correctness",
		"GC instants are simulator-chosen; the allocator's address choice is not",
		"sampling, not enumeration",
	}
}
func (c13) Components() map[string][]string {
	return map[string][]string{
		"real":      {"every Go package of goghcrow/yae (instrumented source)", "C timelib via cgo", "Go runtime allocator/GC, reflect, regexp, fmt"},
		"simulated": {"map iteration order / reflect MapKeys order", "time.Now", "moment of GC", "os.Stdout target and failure", "VM stack tuning constants", "TZ of the process"},
		"stub":      {},
	}
}

type c13Case struct {
	History *Hist13 `json:"history"`
}

func (c13) Batch(seed uint64, wid, batch, count int, deadline time.Time, emit func(*Record)) {
	cap := captureStdout(stdoutPath(wid, batch))
	defer cap.restore()
	x := &evalCtx{cap: cap, rec: &recorder{}}
	rec := &Record{T: "batch", Counts: map[string]int64{}}
	hset := map[uint64]struct{}{}
	for i := 0; i < count; i++ {
		if time.Now().After(deadline) {
			break
		}
		emit(&Record{T: "start", Runs: i})
		r := newRng(seed, uint64(wid), uint64(batch), uint64(i), 13)
		h := genHist13(r)
		res := runHist13(h, x)
		tick()
		runtime.GC()
		traceRun(i, res.Sim.Hash, res.Sim.Steps, fmt.Sprint(res.Viol != nil, res.Reused, res.Sim.MapPerms))
		rec.Runs++
		c := rec.Counts
		c["ops"] += int64(res.Ops)
		c["steps"] += int64(res.Sim.Steps)
		c["map_iterations"] += int64(res.Sim.MapIters)
		c["fault_hash_perm_fired"] += int64(res.Sim.MapPerms)
		c["fault_gc_fired"] += int64(res.Sim.FaultsFired["gc"]) + int64(res.GCBefore)
		c["fault_clock_jump_fired"] += int64(res.Sim.FaultsFired["clock"])
		c["fault_knob_runs"] += int64(res.Sim.FaultsFired["knob"])
		c["fault_env_reuse"] += int64(res.Reused)
		c["fault_reentrant_invocations"] += int64(res.Reentries)
		c["fault_raw_env_edited_in_place"] += int64(res.RawEdits)
		c["fault_raw_type_env_retyped_in_place"] += int64(res.RawRetypes)
		c["compose_law_checked"] += int64(res.Composed)
		if res.FreshChecked {
			c["fresh_process_pristine_checked"]++
		}
		c["sim_time_covered_s"] += abs64(res.Sim.ClockEnd - h.Sim.ClockBase)
		for _, op := range h.Ops {
			if op.StdoutFail {
				c["fault_stdout_fail"]++
			}
			if op.K == "interfere" {
				c["interfere_ops"]++
			}
		}
		if res.Sim.MapPerms > 0 && res.Reused > 0 {
			hset[res.Sim.Hash] = struct{}{}
			if len(rec.Samples) == 0 {
				smp, _ := json.Marshal(h)
				rec.Samples = append(rec.Samples, smp)
			}
		}
		if res.Viol != nil {
			cs, _ := json.Marshal(c13Case{h})
			rf := &ReplayFile{Case: cs, TZ: tzEnv()}
			if i > 0 {
				rf.Prefix = &Prefix{seed, wid, batch, i, nWorkers()}
			}
			emit(&Record{T: "viol", Viol: res.Viol, Replay: rf})
		}
	}
	for h := range hset {
		rec.Hashes = append(rec.Hashes, h)
	}
	emit(rec)
}

func abs64(x int64) int64 {
	if x < 0 {
		return -x
	}
	return x
}

func (c13) GenCase(seed uint64, wid, batch, i int) json.RawMessage {
	b, _ := json.Marshal(c13Case{genHist13(newRng(seed, uint64(wid), uint64(batch), uint64(i), 13))})
	return b
}

func (c13) Replay(rf *ReplayFile) *Violation {
	var cs c13Case
	if err := json.Unmarshal(rf.Case, &cs); err != nil {
		harnessFatal("replay case: %v", err)
	}
	cap := captureStdout(stdoutPath(999, 0))
	defer cap.restore()
	x := &evalCtx{cap: cap, rec: &recorder{}}
	if p := rf.Prefix; p != nil {
		for i := 0; i < p.Count; i++ {
			r := newRng(p.Seed, uint64(p.Wid), uint64(p.Batch), uint64(i), 13)
			runHist13(genHist13(r), x)
			runtime.GC()
		}
	}
	return runHist13(cs.History, x).Viol
}

func (c13) Candidates(rf *ReplayFile) []*ReplayFile {
	var cs c13Case
	if json.Unmarshal(rf.Case, &cs) != nil {
		return nil
	}
	h := cs.History
	var out []*ReplayFile
	clone := func() *Hist13 {
		var n Hist13
		b, _ := json.Marshal(h)
		json.Unmarshal(b, &n)
		return &n
	}
	mk := func(n *Hist13) {
		b, _ := json.Marshal(c13Case{n})
		out = append(out, &ReplayFile{Case: b, Prefix: rf.Prefix})
	}
	// drop halves / single ops (as nops, indices stay valid)
	live := 0
	for _, op := range h.Ops {
		if op.K != "nop" {
			live++
		}
	}
	if live > 4 {
		for part := 0; part < 2; part++ {
			n := clone()
			for i := range n.Ops {
				if (i < len(n.Ops)/2) == (part == 0) && n.Ops[i].K != "nop" {
					n.Ops[i] = H13Op{K: "nop"}
				}
			}
			mk(n)
		}
	}
	for i := len(h.Ops) - 1; i >= 0; i-- {
		if h.Ops[i].K == "nop" {
			continue
		}
		n := clone()
		n.Ops[i] = H13Op{K: "nop"}
		mk(n)
	}
	if len(h.Sim.Faults) > 0 {
		n := clone()
		n.Sim.Faults = nil
		mk(n)
		for i := range h.Sim.Faults {
			n := clone()
			n.Sim.Faults = append(n.Sim.Faults[:i], n.Sim.Faults[i+1:]...)
			mk(n)
		}
	}
	if h.Sim.MapMode != simrt.MapSorted {
		n := clone()
		n.Sim.MapMode = simrt.MapSorted
		mk(n)
	}
	if h.Sim.Knobs != nil {
		n := clone()
		n.Sim.Knobs = nil
		mk(n)
	}
	for i, op := range h.Ops {
		if op.Carrier == "reused" || op.Carrier == "raw" || op.Carrier == "inplace" {
			n := clone()
			n.Ops[i].Carrier = "fresh"
			mk(n)
		}
		if op.StdoutFail {
			n := clone()
			n.Ops[i].StdoutFail = false
			mk(n)
		}
		if op.GCBefore {
			n := clone()
			n.Ops[i].GCBefore = false
			mk(n)
		}
		if op.Reenter {
			n := clone()
			n.Ops[i].Reenter = false
			mk(n)
		}
	}
	return out
}


// ---------------------------------------------------------------------------
// fresh-process pristine: the same pristine evaluations, first thing in a new OS process

type pkeyJSON struct {
	Kind string     `json:"kind"`
	Spec EngineSpec `json:"spec"`
	Src  string     `json:"src"`
	CEnv string     `json:"cenv"`
	IEnv string     `json:"ienv"`
}

type obsJSON struct {
	Class, Value, Text, Calls, Stdout, Debug, Law string
}

func distinctKeys(keys []pkey) []pkey {
	seen := map[pkey]bool{}
	var out []pkey
	for _, k := range keys {
		if k.kind != "" && !seen[k] {
			seen[k] = true
			out = append(out, k)
		}
	}
	return out
}

func freshProcessCheck(keys []pkey, t1 map[pkey]obs) *Violation {
	ks := distinctKeys(keys)
	if len(ks) == 0 {
		return nil
	}
	in := make([]pkeyJSON, len(ks))
	for i, k := range ks {
		in[i] = pkeyJSON{k.kind, k.spec, k.src, k.cenv, k.ienv}
	}
	self, err := os.Executable()
	if err != nil {
		harnessFatal("fresh-process pristine: %v", err)
	}
	f, err := os.CreateTemp("", "verif-pristine-*.json")
	if err != nil {
		harnessFatal("fresh-process pristine: %v", err)
	}
	path := f.Name()
	f.Close()
	defer os.Remove(path)
	b, _ := json.Marshal(in)
	cmd := exec.Command(self, "pristine13", "-out", path)
	cmd.Stdin = bytes.NewReader(b)
	cmd.Env = os.Environ()
	var stderr bytes.Buffer
	cmd.Stderr = &stderr
	if err := cmd.Run(); err != nil {
		if sig, ok := classifyCrash(stderr.String()); ok {
			return &Violation{"process", "c13:fresh-process:" + sig, "the pristine evaluations, run first thing in a fresh process, killed it: " + clip(stderr.String())}
		}
		harnessFatal("fresh-process pristine child: %v\n%s", err, clip(stderr.String()))
	}
	ob, err := os.ReadFile(path)
	if err != nil {
		harnessFatal("fresh-process pristine: %v", err)
	}
	var out []obsJSON
	if err := json.Unmarshal(ob, &out); err != nil || len(out) != len(ks) {
		harnessFatal("fresh-process pristine: bad child output (%v, %d of %d)", err, len(out), len(ks))
	}
	for i, k := range ks {
		a := t1[k]
		fo := obs{Class: out[i].Class, Value: out[i].Value, Text: out[i].Text, Calls: out[i].Calls, Stdout: out[i].Stdout, Debug: out[i].Debug}
		if asp := diffObs(fo, a, false); asp != "" {
			return &Violation{"process", "c13:process-history-" + asp + ":" + k.kind,
				fmt.Sprintf("%s %q (env %s/%s, engine %+v): the fault-free evaluation on a fresh engine gives another %s in THIS process than in a fresh process (the outcome depends on what the process evaluated before)\n fresh process: %s\n this process : %s",
					k.kind, k.src, k.cenv, k.ienv, k.spec, asp, fo, a)}
		}
	}
	return nil
}

// builtinRT: a run-time function table like the one every engine builds for itself. Built on
// first use, never at process start: registering the built-ins touches the shared signature
// objects, and a harness that did so before the first scenario would hide every cold-start
// effect on them (it did: vp run #13 missed S119 / S160 / S174 for exactly that reason).
var builtinRT *val.Env

func getBuiltinRT() *val.Env {
	if builtinRT == nil {
		rt := val.NewEnv()
		for _, f := range fun.BuiltIn() {
			rt.RegisterFun(f)
		}
		builtinRT = rt
	}
	return builtinRT
}

// splitRun: Parse (or the kept tree) + CompileExpr + one evaluation of the compiled closure on an
// environment of the compile-time typing. Engines with user functions are compiled only (their
// run-time function table is private to the engine).
func splitRun(o *obs, e *yae.Expr, spec EngineSpec, keep func(func() ast.Expr) ast.Expr, src, envName string) {
	o.Class = "cerr"
	var cl compiler.Closure
	func() {
		defer func() {
			if r := recover(); r != nil && simrt.IsAbort(r) {
				panic(r)
			}
		}()
		te, err := conv.TypeEnvOf(envMakers[envName]())
		if err != nil {
			return
		}
		parse := func() ast.Expr { return e.Parse(src) }
		var tree ast.Expr
		if keep != nil {
			tree = keep(parse)
		} else {
			tree = parse()
		}
		cl = e.CompileExpr(tree, te)
	}()
	if cl == nil {
		return
	}
	o.Class = "ok"
	if spec.UserFuns || spec.Backend == "dbg" {
		return
	}
	ve, err := conv.ValEnvOf(envMakers[envName]())
	if err != nil {
		return
	}
	func() {
		defer func() {
			if r := recover(); r != nil {
				if simrt.IsAbort(r) {
					panic(r)
				}
				o.Class = "rerr"
			}
		}()
		v := cl(ve.Inherit(getBuiltinRT()))
		valObs(o, v, nil)
		o.held = nil
	}()
}

// spareLists rebuilds every list inside v with spare capacity behind its elements.
func spareLists(v *val.Val, d int) {
	if v == nil || d > 6 {
		return
	}
	switch v.Type.Kind {
	case types.KList:
		l := v.List()
		l.V = append(make([]*val.Val, 0, len(l.V)+3), l.V...)
		for _, el := range l.V {
			spareLists(el, d+1)
		}
	case types.KObj:
		for _, f := range v.Obj().V {
			spareLists(f, d+1)
		}
	case types.KMap:
		for _, mv := range v.Map().V {
			spareLists(mv, d+1)
		}
	}
}

var timeIdent = regexp.MustCompile(`(^|[^a-zA-Z0-9_."])t($|[^a-zA-Z0-9_(":])`)

func pristine13Main(args []string) {
	fs := flag.NewFlagSet("pristine13", flag.ExitOnError)
	outPath := fs.String("out", "", "")
	fs.Parse(args)
	var in []pkeyJSON
	if err := json.NewDecoder(os.Stdin).Decode(&in); err != nil {
		harnessFatal("pristine13: %v", err)
	}
	gcPolicy(drivers["C13"])
	startWatchdog()
	cap := captureStdout(stdoutPath(7000+os.Getpid()%1000, 0))
	defer cap.restore()
	x := &evalCtx{cap: cap, rec: &recorder{}}
	nameClass("")
	out := make([]obsJSON, len(in))
	for i, k := range in {
		o := x.pristine(pkey{k.Kind, k.Spec, k.Src, k.CEnv, k.IEnv})
		out[i] = obsJSON{o.Class, o.Value, o.Text, o.Calls, o.Stdout, o.Debug, o.Law}
		tick()
	}
	b, _ := json.Marshal(out)
	if err := os.WriteFile(*outPath, b, 0o644); err != nil {
		harnessFatal("pristine13: %v", err)
	}
}
