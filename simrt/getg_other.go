//go:build !amd64 && !arm64

package simrt

import "runtime"

// getg: portable (slow) fallback, the goroutine id parsed from the stack header.
func getg() uintptr {
	var buf [64]byte
	n := runtime.Stack(buf[:], false)
	var id uintptr
	for _, c := range buf[len("goroutine "):n] {
		if c < '0' || c > '9' {
			break
		}
		id = id*10 + uintptr(c-'0')
	}
	return id
}
