#!/bin/bash
# Build the framework offline from files on disk only.
set -euo pipefail
cd "$(dirname "$0")"
exec ./check setup
