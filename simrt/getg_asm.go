//go:build amd64 || arm64

package simrt

// getg returns the address of the running goroutine's descriptor: an identity that is
// stable while the goroutine lives. simrt uses it to tell the simulated tasks from
// goroutines it does not schedule (finalizers, timers of the runtime).
func getg() uintptr
