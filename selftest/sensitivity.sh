#!/bin/bash
# Sensitivity self-test: every patch under /verif/seeded/*/patch.diff and
# /verif/mutants/*.diff (property in meta.json / file name prefix) is applied to a
# scratch copy of /repo; the check of its property must report a violation within
# the quick budget. Nothing is ever applied to /repo itself.
# usage: sensitivity.sh [id-substring ...]
set -uo pipefail
VERIF=$(cd "$(dirname "$0")/.." && pwd)
REPO=${VERIF_REPO:-/repo}
BASE=$(mktemp -d "${TMPDIR:-/tmp}/verif-sens-XXXXXX")
trap 'rm -rf "$BASE"' EXIT
filter=("$@")
want() { [ ${#filter[@]} -eq 0 ] && return 0; for f in "${filter[@]}"; do [[ "$1" == *"$f"* ]] && return 0; done; return 1; }
JOBS=${VERIF_SENS_JOBS:-1}
run_one() { # id prop patch   (one result line on stdout, also kept in $BASE/res/<id>)
  local id=$1 prop=$2 patch=$3 dir="$BASE/$1"
  mkdir -p "$dir"; rsync -a --exclude .git "$REPO/" "$dir/repo/"
  if ! (cd "$dir/repo" && patch -p1 -s --no-backup-if-mismatch < "$patch"); then
    echo "SENSITIVITY $id: patch does not apply to the current tree (skipped)" | tee "$BASE/res/$id"; rm -rf "$dir"; return
  fi
  local out="$dir/out.txt"
  # evidence / replays written by this run belong to the mutant, not to /repo: kept out of /verif
  # VERIF_STOP_AT_FIRST: the first violation ends the exploration (nothing is minimised)
  VERIF_STOP_AT_FIRST=1 VERIF_OUT="$dir" VERIF_REPO="$dir/repo" "$VERIF/check" "$(echo "$prop" | tr A-Z a-z)" --tier quick >"$out" 2>&1
  local rc=$?
  if [ $rc = 1 ] && grep -q "^VIOLATION property=$prop" "$out"; then
    echo "SENSITIVITY $id ($prop): detected  [$(grep -m1 'signature:' "$out" | sed 's/^ *//')] $(grep -o 'runs=[0-9]* .*wall=[0-9.]*s' "$out" | tail -1 | sed 's/distinct_nontrivial=[0-9]* //;s/worker_processes=[0-9]* //')" | tee "$BASE/res/$id"
  else
    { echo "SENSITIVITY $id ($prop): MISSED (exit $rc)"; tail -3 "$out"; } | tee "$BASE/res/$id"
  fi
  rm -rf "$dir"
}
export -f run_one; export BASE REPO VERIF
mkdir -p "$BASE/res"
list="$BASE/list.txt"; : > "$list"
for d in "$VERIF"/seeded/*/; do
  id=$(basename "$d"); want "$id" || continue
  prop=$(python3 -c "import json;print(json.load(open('$d/meta.json'))['property'])")
  echo "$id $prop ${d}patch.diff" >> "$list"
done
for p in "$VERIF"/mutants/*.diff; do
  [ -e "$p" ] || continue
  id=$(basename "$p" .diff); want "$id" || continue
  prop=$(echo "$id" | cut -d- -f1 | tr a-z A-Z)
  echo "$id $prop $p" >> "$list"
done
xargs -P "$JOBS" -L 1 bash -c 'run_one "$0" "$1" "$2"' < "$list"
pass=$(grep -l "): detected" "$BASE"/res/* 2>/dev/null | wc -l)
miss=$(grep -l "MISSED" "$BASE"/res/* 2>/dev/null | wc -l)
echo "sensitivity self-test: detected=$pass missed=$miss"
[ $miss = 0 ]
