package simrt

import (
	"sync"
	"testing"
)

func TestGoInline(t *testing.T) {
	for seed := uint64(1); seed < 200; seed++ {
		var out [8]int
		r := Run(Config{Seed: seed, Sched: SchedRandom, SwitchProb: 0.3, MaxSteps: 100000}, func() {
			var wg sync.WaitGroup
			for i := 0; i < 8; i++ {
				i := i
				WGAdd(&wg, wg.Add, 1)
				Go(func() {
					defer WGDone(&wg, wg.Done)
					for k := 0; k < 5; k++ {
						Yield(1)
					}
					out[i] = i * i
				})
			}
			WGWait(&wg, wg.Wait)
		})
		if r.Spawned != 8 || r.Deadlock || r.StepCap {
			t.Fatalf("seed %d: %+v", seed, r)
		}
		for i, v := range out {
			if v != i*i {
				t.Fatalf("seed %d out[%d]=%d", seed, i, v)
			}
		}
	}
}

func TestGoRaceAndLostUpdate(t *testing.T) {
	lost := 0
	for seed := uint64(1); seed < 300; seed++ {
		n := 0
		body := func() {
			var wg sync.WaitGroup
			for i := 0; i < 2; i++ {
				WGAdd(&wg, wg.Add, 1)
				Go(func() {
					defer WGDone(&wg, wg.Done)
					Yield(1)
					t__ := n + 1
					YieldW(2)
					n = t__
				})
			}
			WGWait(&wg, wg.Wait)
		}
		Run(Config{Seed: seed, Sched: SchedStore, MaxSteps: 100000}, body, func() { Yield(3) })
		if n != 2 {
			lost++
		}
	}
	if lost == 0 {
		t.Fatalf("no lost update in 300 schedules")
	}
	t.Logf("lost updates in %d/299 schedules", lost)
}

func TestGoDeterministic(t *testing.T) {
	run := func(seed uint64) uint64 {
		r := Run(Config{Seed: seed, Sched: SchedRandom, SwitchProb: 0.5, MaxSteps: 100000}, func() {
			var wg sync.WaitGroup
			var mu sync.Mutex
			for i := 0; i < 4; i++ {
				i := i
				WGAdd(&wg, wg.Add, 1)
				Go(func() {
					defer WGDone(&wg, wg.Done)
					Lock(mu.TryLock, mu.Lock)
					Mix(string(rune('a' + i)))
					Yield(1)
					mu.Unlock()
				})
			}
			WGWait(&wg, wg.Wait)
		}, func() { Yield(2); Yield(2) })
		return r.Hash
	}
	for seed := uint64(1); seed < 50; seed++ {
		if run(seed) != run(seed) {
			t.Fatalf("seed %d not deterministic", seed)
		}
	}
}

// A goroutine simrt does not schedule (here: a plain `go`) runs instrumented code while a
// simulated run is active: every seam must be the plain operation for it.
func TestForeignGoroutine(t *testing.T) {
	for seed := uint64(1); seed < 30; seed++ {
		var mu sync.Mutex
		shared := 0
		stop := make(chan struct{})
		done := make(chan struct{})
		r := Run(Config{Seed: seed, Sched: SchedRandom, SwitchProb: 0.3, MaxSteps: 1000000}, func() {
			go func() { // foreign
				defer close(done)
				for {
					select {
					case <-stop:
						return
					default:
					}
					Yield(9)
					Lock(mu.TryLock, mu.Lock)
					shared++
					mu.Unlock()
					Mix("foreign")
				}
			}()
			for i := 0; i < 200; i++ {
				Yield(1)
				Lock(mu.TryLock, mu.Lock)
				shared++
				Yield(2)
				mu.Unlock()
			}
		}, func() {
			for i := 0; i < 200; i++ {
				Yield(3)
				Lock(mu.TryLock, mu.Lock)
				shared++
				mu.Unlock()
			}
		})
		close(stop)
		<-done
		if r.Deadlock || r.StepCap {
			t.Fatalf("seed %d: %+v", seed, r)
		}
	}
}
