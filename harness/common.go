package main

import (
	"io"
	"fmt"
	"math"
	"os"
	"reflect"
	"sort"
	"strconv"
	"strings"
	"time"

	yae "github.com/goghcrow/yae"
	"github.com/goghcrow/yae/closure"
	"github.com/goghcrow/yae/conv"
	"github.com/goghcrow/yae/debug"
	"github.com/goghcrow/yae/fun"
	"github.com/goghcrow/yae/interp"
	"github.com/goghcrow/yae/parser/oper"
	"github.com/goghcrow/yae/simrt"
	"github.com/goghcrow/yae/trans"
	"github.com/goghcrow/yae/types"
	"github.com/goghcrow/yae/val"
	"github.com/goghcrow/yae/vm"
)

// ---------------------------------------------------------------------------
// PRNG: every harness choice comes from one of these, seeded from VERIF_SEED.

type rng struct{ s uint64 }

func newRng(parts ...uint64) *rng {
	r := &rng{0x1234567}
	for _, p := range parts {
		r.s ^= p + 0x9e3779b97f4a7c15 + (r.s << 6) + (r.s >> 2)
		simrt.Splitmix(&r.s)
	}
	return r
}
func (r *rng) u64() uint64 { return simrt.Splitmix(&r.s) }
func (r *rng) intn(n int) int {
	if n <= 1 {
		return 0
	}
	return int(r.u64() % uint64(n))
}
func (r *rng) float() float64    { return float64(r.u64()>>11) / (1 << 53) }
func (r *rng) chance(p float64) bool { return r.float() < p }
func (r *rng) pick(xs []string) string { return xs[r.intn(len(xs))] }

// ---------------------------------------------------------------------------
// own value / type walkers: independent of val.String / types.String / types.Equals

func renderType(t *types.Type) string { return renderTypeD(t, 0) }

func renderTypeD(t *types.Type, d int) string {
	if t == nil {
		return "<nil-type>"
	}
	if d > 40 {
		return "<deep>"
	}
	switch t.Kind {
	case types.KNum:
		return "num"
	case types.KStr:
		return "str"
	case types.KBool:
		return "bool"
	case types.KTime:
		return "time"
	case types.KTop:
		return "top"
	case types.KBot:
		return "bot"
	case types.KTyVar:
		return "'" + t.TyVar().Name
	case types.KList:
		return "list[" + renderTypeD(t.List().El, d+1) + "]"
	case types.KMap:
		return "map[" + renderTypeD(t.Map().Key, d+1) + "," + renderTypeD(t.Map().Val, d+1) + "]"
	case types.KMaybe:
		return "maybe[" + renderTypeD(t.Maybe().Elem, d+1) + "]"
	case types.KObj:
		fs := t.Obj().Fields
		xs := make([]string, len(fs))
		for i, f := range fs {
			xs[i] = f.Name + ":" + renderTypeD(f.Val, d+1)
		}
		sort.Strings(xs) // by name: structural identity ignores field order
		return "{" + strings.Join(xs, ",") + "}"
	case types.KFun:
		f := t.Fun()
		xs := make([]string, len(f.Param))
		for i, p := range f.Param {
			xs[i] = renderTypeD(p, d+1)
		}
		return "fun(" + strings.Join(xs, ",") + ")" + renderTypeD(f.Return, d+1)
	default: // tuple (unexported kind)
		tv := t.Tuple().Val
		xs := make([]string, len(tv))
		for i, p := range tv {
			xs[i] = renderTypeD(p, d+1)
		}
		return "(" + strings.Join(xs, ",") + ")"
	}
}

func fmtNum(f float64) string {
	if math.IsNaN(f) {
		return "NaN"
	}
	return strconv.FormatFloat(f, 'g', -1, 64)
}

// render is the harness's canonical rendering of a yae value: walks exported
// fields only, sorts map entries by rendered key and object fields by name.
func render(v *val.Val) string { return renderD(v, 0) }

func renderD(v *val.Val, d int) string {
	if v == nil {
		return "<nil>"
	}
	if d > 40 {
		return "<deep>"
	}
	if v.Type == nil {
		return "<untyped>"
	}
	switch v.Type.Kind {
	case types.KNum:
		return fmtNum(v.Num().V)
	case types.KStr:
		return strconv.Quote(v.Str().V)
	case types.KBool:
		if v.Bool().V {
			return "true"
		}
		return "false"
	case types.KTime:
		return "@" + strconv.FormatInt(v.Time().V.Unix(), 10)
	case types.KList:
		l := v.List().V
		xs := make([]string, len(l))
		for i, e := range l {
			xs[i] = renderD(e, d+1)
		}
		return "[" + strings.Join(xs, ",") + "]"
	case types.KMap:
		m := v.Map().V
		xs := make([]string, 0, len(m))
		for k, e := range m {
			xs = append(xs, k.String()+"=>"+renderD(e, d+1))
		}
		sort.Strings(xs)
		return "map[" + strings.Join(xs, ",") + "]"
	case types.KObj:
		o := v.Obj()
		fs := o.Type.Obj().Fields
		xs := make([]string, 0, len(fs))
		for i, f := range fs {
			if i < len(o.V) {
				xs = append(xs, f.Name+":"+renderD(o.V[i], d+1))
			} else {
				xs = append(xs, f.Name+":<missing>")
			}
		}
		sort.Strings(xs)
		return "{" + strings.Join(xs, ",") + "}"
	case types.KMaybe:
		mb := v.Maybe()
		if mb.V == nil {
			return "nothing"
		}
		return "just(" + renderD(mb.V, d+1) + ")"
	case types.KFun:
		return "<fun>"
	}
	return "<kind " + strconv.Itoa(int(v.Type.Kind)) + ">"
}

// ---------------------------------------------------------------------------
// host-function call recorder

type recorder struct {
	calls []string
	// hook: an injected re-entrant interference. While an evaluation is inside the
	// tracing function the harness (playing the host program) may invoke the library
	// again — "interleaving it with other invocations" from within a host function.
	hook  func()
	depth int
}

func (r *recorder) add(s string) {
	if r.depth > 0 {
		return // calls made by a nested, interfering invocation are not part of the trace
	}
	if len(r.calls) < 4096 {
		r.calls = append(r.calls, s)
	}
}

func (r *recorder) interfere() {
	if r.hook != nil && r.depth == 0 {
		r.depth++
		func() {
			defer func() {
				r.depth--
				if p := recover(); p != nil && simrt.IsAbort(p) {
					panic(p)
				}
			}()
			r.hook()
		}()
	}
}
func (r *recorder) take() []string {
	c := r.calls
	r.calls = nil
	return c
}

// ---------------------------------------------------------------------------
// engines

type EngineSpec struct {
	Backend  string `json:"backend"`           // vm | vmcall | closure | interp
	UserFuns bool   `json:"user_funs,omitempty"` // register tracing / lazy / poly user functions and a custom operator
	Tag      int    `json:"tag,omitempty"`       // != 0: this engine also registers tag(x) = x + Tag, a function that is DIFFERENT on every engine that has one
	Late     bool   `json:"late,omitempty"`      // the engine compiles a trivial expression BEFORE its functions are registered (registration after the first compilation)
}

var backends = []string{"vm", "vmcall", "closure", "interp"}

// pickBackend: the four back ends plus "dbg", the closure compiler in debug
// (power-assert) mode, whose Callables record intermediate values into the
// *debug.Record carried by the run-time environment.
func pickBackend(r *rng) string {
	if r.chance(0.15) {
		return "dbg"
	}
	if r.chance(0.08) {
		return r.pick([]string{"vmlog", "closurelog"})
	}
	if r.chance(0.08) {
		return r.pick([]string{"extvm", "extclosure"})
	}
	return backends[r.intn(4)]
}

// callWith invokes c the way its back end requires and returns the debug record text ("" unless dbg).
func callWith(spec EngineSpec, c yae.Callable, env interface{}) (v *val.Val, dbg string, err error) {
	if spec.Backend != "dbg" {
		v, err = c(env)
		return
	}
	ve, ok := env.(*val.Env)
	if !ok {
		ve, err = conv.ValEnvOf(env)
		if err != nil {
			return nil, "", err
		}
	}
	// a reused raw environment keeps its Record (the debug compiler clears it per run)
	rcd, _ := ve.Dgb.(*debug.Record)
	if rcd == nil {
		rcd = debug.NewRecord()
		ve.Dgb = rcd
	}
	v, err = c(ve)
	if err != nil {
		// rejected before anything was evaluated: the (reused) Record was not touched
		// by this call, its contents say nothing about it
		return v, "", err
	}
	return v, rcd.String(), err
}

// recFn yields the recorder the currently executing code must write to.
type recFn func() *recorder

func buildEngine(spec EngineSpec, rec recFn) *yae.Expr {
	e := yae.NewExpr()
	switch spec.Backend {
	case "vm":
		e.UseBytecodeCompiler()
	case "vmcall":
		e.UseCompiler(vm.CompileCallThreaded)
	case "closure":
		e.UseClosureCompiler()
	case "interp":
		e.UseCompiler(interp.Interp)
	case "dbg":
		e.UseCompiler(closure.DebugCompile)
	case "extvm", "extclosure":
		// an engine set up by hand the way ext/ does it: no implicit built-ins, the operator
		// table, the translator and the functions are registered explicitly
		e.UseBuiltIn(false).RegisterOperator(oper.BuiltIn()...).RegisterTranslator(trans.Desugar).RegisterFun(fun.BuiltIn()...)
		if spec.Backend == "extvm" {
			e.UseBytecodeCompiler()
		} else {
			e.UseClosureCompiler()
		}
	case "vmlog":
		// the engine's own logging switched on (EnableDebug): outcomes must be what they are without it
		e.UseBytecodeCompiler().EnableDebug(io.Discard)
	case "closurelog":
		e.UseClosureCompiler().EnableDebug(io.Discard)
	default:
		panic("unknown backend " + spec.Backend)
	}
	if spec.Late {
		// first compilation (which initialises the engine) before any registration
		func() {
			defer func() {
				if r := recover(); r != nil && simrt.IsAbort(r) {
					panic(r)
				}
			}()
			e.Compile("1", map[string]interface{}{})
		}()
	}
	if spec.UserFuns {
		registerUserFuns(e, rec)
	}
	if spec.Tag != 0 {
		add := float64(spec.Tag)
		e.RegisterFun(val.Fun(types.Fun("tag", []*types.Type{types.Num}, types.Num), func(args ...*val.Val) *val.Val {
			return val.Num(args[0].Num().V + add)
		}))
	}
	return e
}

func registerUserFuns(e *yae.Expr, rec recFn) {
	a := types.TyVar("a")
	// tr :: forall a. a -> a   (strict, records its argument)
	e.RegisterFun(val.Fun(types.Fun("tr", []*types.Type{a}, a), func(args ...*val.Val) *val.Val {
		r := rec()
		r.add("tr(" + render(args[0]) + ")")
		r.interfere()
		return args[0]
	}))
	// inc :: num -> num
	e.RegisterFun(val.Fun(types.Fun("inc", []*types.Type{types.Num}, types.Num), func(args ...*val.Val) *val.Val {
		rec().add("inc(" + render(args[0]) + ")")
		return val.Num(args[0].Num().V + 1)
	}))
	// first :: forall b. list[b] -> b -> b
	b := types.TyVar("b")
	e.RegisterFun(val.Fun(types.Fun("first", []*types.Type{types.List(b), b}, b), func(args ...*val.Val) *val.Val {
		l := args[0].List().V
		if len(l) == 0 {
			return args[1]
		}
		return l[0]
	}))
	// when :: forall c. bool -> c -> c -> c   (lazy, polymorphic: thunks)
	c := types.TyVar("c")
	e.RegisterFun(val.LazyFun(types.Fun("when", []*types.Type{types.Bool, c, c}, c), func(args ...*val.Val) *val.Val {
		rec().add("when")
		if args[0].Fun().Call().Bool().V {
			return args[1].Fun().Call()
		}
		return args[2].Fun().Call()
	}))
	// orelse :: bool -> bool -> bool   (lazy, monomorphic)
	e.RegisterFun(val.LazyFun(types.Fun("orelse", []*types.Type{types.Bool, types.Bool}, types.Bool), func(args ...*val.Val) *val.Val {
		rec().add("orelse")
		if args[0].Fun().Call().Bool().V {
			return val.True
		}
		return args[1].Fun().Call()
	}))
	// nest :: num -> num   (strict; calls back into the library: invokes another compiled
	// expression on its own private engine while the outer evaluation is in progress)
	inner := yae.NewExpr()
	innerC, ierr := inner.Compile("if(a > 1000, a - 1, a * 2 + 1)", map[string]interface{}{"a": 0.0})
	if ierr == nil {
		e.RegisterFun(val.Fun(types.Fun("nest", []*types.Type{types.Num}, types.Num), func(args ...*val.Val) *val.Val {
			v, err := innerC(map[string]interface{}{"a": args[0].Num().V})
			if err != nil {
				panic(err)
			}
			return v
		}))
	}
	// len :: forall d. maybe[d] -> num   (a user overload of a BUILT-IN name, registered before the
	// engine's first compilation: this engine's overload table for len/1 is laid out differently
	// from a plain engine's)
	d := types.TyVar("d")
	e.RegisterFun(val.Fun(types.Fun("len", []*types.Type{types.Maybe(d)}, types.Num), func(args ...*val.Val) *val.Val {
		if args[0].Maybe().V == nil {
			return val.Num(0)
		}
		return val.Num(1)
	}))
	// custom operator  <>  :: str -> str -> str
	e.RegisterOperator(oper.Operator{Kind: "<>", BP: oper.BP_TERM, Fixity: oper.INFIX_L})
	e.RegisterFun(val.Fun(types.Fun("<>", []*types.Type{types.Str, types.Str}, types.Str), func(args ...*val.Val) *val.Val {
		return val.Str(args[0].Str().V + "|" + args[1].Str().V)
	}))
}

// ---------------------------------------------------------------------------
// environments (host data). Each entry builds FRESH Go values on every call.

type Inner struct {
	ID   int      `yae:"id"`
	Name string   `yae:"name"`
	Tags []string `yae:"tags"`
}

type WithMaybe struct {
	A float64 `yae:"a"`
	B *int    `yae:"b,maybe"`
	C *string `yae:"c,maybe"`
}

type EnvStruct struct {
	N  int                `yae:"n"`
	X  float64            `yae:"x"`
	S  string             `yae:"s"`
	B  bool               `yae:"b"`
	L  []int              `yae:"l"`
	Ls []string           `yae:"ls"`
	M  map[string]int     `yae:"m"`
	Mi map[int]string     `yae:"mi"`
	O  Inner              `yae:"o"`
	P  *WithMaybe         `yae:"p"`
	T  time.Time          `yae:"t"`
	Ll [][]int            `yae:"ll"`
	Lo []Inner            `yae:"lo"`
	Mo map[string]Inner   `yae:"mo"`
}

func intp(i int) *int { return &i }

// "structR": the standard names and types once more, with the object fields DECLARED IN
// ANOTHER ORDER (object types are compared by field name, values are laid out by their own
// type's order) and other element values.
type InnerR struct {
	Tags []string `yae:"tags"`
	Name string   `yae:"name"`
	ID   int      `yae:"id"`
}

type EnvStructR struct {
	Mo map[string]InnerR `yae:"mo"`
	Lo []InnerR          `yae:"lo"`
	Ll [][]int           `yae:"ll"`
	T  time.Time         `yae:"t"`
	P  *WithMaybe        `yae:"p"`
	O  InnerR            `yae:"o"`
	Mi map[int]string    `yae:"mi"`
	M  map[string]int    `yae:"m"`
	Ls []string          `yae:"ls"`
	L  []int             `yae:"l"`
	B  bool              `yae:"b"`
	S  string            `yae:"s"`
	X  float64           `yae:"x"`
	N  int               `yae:"n"`
}

func envStdStructR() interface{} {
	return &EnvStructR{
		N: 44, X: 4.5, S: "hallo", B: true,
		L: []int{5, 3, 5, 4}, Ls: []string{"c", "d", "c", "e"},
		M:  map[string]int{"k1": 21, "k2": 22, "k3": 23, "k4": 24},
		Mi: map[int]string{1: "eins", 2: "zwei", 3: "drei"},
		O:  InnerR{[]string{"p", "q", "r"}, "nine", 9},
		P:  &WithMaybe{A: 3.5, B: intp(7), C: nil},
		T:  time.Unix(1600000200, 0).In(zoneEST),
		Ll: [][]int{{3, 4}, {5}},
		Lo: []InnerR{{nil2(), "c", 3}, {[]string{"v"}, "d", 4}},
		Mo: map[string]InnerR{"u": {[]string{"s"}, "c", 3}, "v": {[]string{"t"}, "d", 4}},
	}
}

// "ifaceA" / "ifaceB": ONE Go type whose containers hold interface values; the two
// environments differ in the dynamic type of what they hold (numbers / strings), so the
// same Go type stands for two different typings.
type InnerI struct {
	Vals []interface{} `yae:"vals"`
}

type EnvIface struct {
	N      int                    `yae:"n"`
	Params map[string]interface{} `yae:"params"`
	Xs     []interface{}          `yae:"xs"`
	In     InnerI                 `yae:"in"`
}

func envIfaceA() interface{} {
	return &EnvIface{N: 3, Params: map[string]interface{}{"k": 1, "l": 2}, Xs: []interface{}{10, 20, 30}, In: InnerI{[]interface{}{7, 8}}}
}

func envIfaceA2() interface{} {
	return &EnvIface{N: 4, Params: map[string]interface{}{"k": 5, "m": 6}, Xs: []interface{}{11, 21}, In: InnerI{[]interface{}{9}}}
}

func envIfaceB() interface{} {
	return &EnvIface{N: 3, Params: map[string]interface{}{"k": "v", "l": "w"}, Xs: []interface{}{"x", "yy", "zzz"}, In: InnerI{[]interface{}{"p", "q"}}}
}

func envStdMap() interface{} {
	return map[string]interface{}{
		"n": 42, "x": 2.5, "s": "héllo", "b": true,
		"l":  spareInts([]int{3, 1, 3, 2}),
		"ls": spareStrs([]string{"a", "b", "a", "c"}),
		"m":  map[string]int{"k1": 1, "k2": 2, "k3": 3, "k4": 4},
		"mi": map[int]string{1: "one", 2: "two", 3: "three"},
		"o":  Inner{7, "seven", spareStrs([]string{"x", "y", "z"})},
		"p":  &WithMaybe{A: 1.5, B: intp(5), C: nil},
		"t":  time.Unix(1600000000, 0),
		"ll": [][]int{{1, 2}, {3}},
		"lo": []Inner{{1, "a", nil2()}, {2, "b", []string{"t"}}},
		"mo": map[string]Inner{"u": {1, "a", []string{"q"}}, "v": {2, "b", []string{"r"}}},
	}
}

func nil2() []string { return []string{} }

// host slices with spare capacity (what append-built host data looks like): the region
// between len and cap is part of the "host data not modified" snapshot
func spareInts(s []int) []int {
	t := make([]int, len(s), len(s)+4)
	copy(t, s)
	return t
}

func spareStrs(s []string) []string {
	t := make([]string, len(s), len(s)+3)
	copy(t, s)
	return t
}

func envStdStruct() interface{} {
	return &EnvStruct{
		N: 42, X: 2.5, S: "héllo", B: true,
		L: spareInts([]int{3, 1, 3, 2}), Ls: spareStrs([]string{"a", "b", "a", "c"}),
		M:  map[string]int{"k1": 1, "k2": 2, "k3": 3, "k4": 4},
		Mi: map[int]string{1: "one", 2: "two", 3: "three"},
		O:  Inner{7, "seven", spareStrs([]string{"x", "y", "z"})},
		P:  &WithMaybe{A: 1.5, B: intp(5), C: nil},
		T:  time.Unix(1600000000, 0).In(time.UTC),
		Ll: [][]int{{1, 2}, {3}},
		Lo: []Inner{{1, "a", nil2()}, {2, "b", []string{"t"}}},
		Mo: map[string]Inner{"u": {1, "a", []string{"q"}}, "v": {2, "b", []string{"r"}}},
	}
}

// "map2" / "struct2": the SAME names and types as map / struct, OTHER contents: a Callable
// compiled against one is accepted by the other, and its result must follow the contents.
func envStdStruct2() interface{} {
	return &EnvStruct{
		N: 7, X: 1.25, S: "other", B: false,
		L: []int{9, 8, 9, 7, 1}, Ls: []string{"q", "q", "r"},
		M:  map[string]int{"k1": 10, "k2": 20, "k9": 90},
		Mi: map[int]string{}, // an EMPTY map (typed from the static Go type)
		O:  Inner{70, "seventy", []string{"u", "v", "w"}},
		P:  &WithMaybe{A: 9.5, B: nil, C: strp("cc")},
		T:  time.Unix(1700000000, 0).In(zoneJST),
		Ll: [][]int{{5}, {}, {8}},
		Lo: []Inner{{3, "c", []string{"x"}}, {4, "d", []string{}}, {5, "e", []string{"y", "z"}}},
		Mo: map[string]Inner{"u": {11, "aa", []string{"q1"}}, "w": {12, "bb", []string{}}},
	}
}

func envStdMap2() interface{} {
	e := envStdStruct2().(*EnvStruct)
	return map[string]interface{}{
		"n": e.N, "x": e.X, "s": e.S, "b": e.B, "l": e.L, "ls": e.Ls, "m": e.M, "mi": e.Mi,
		"o": e.O, "p": e.P, "t": e.T, "ll": e.Ll, "lo": e.Lo, "mo": e.Mo,
	}
}

// "map3" / "struct3": same names, types AND shapes (lengths, key sets) as map / struct,
// other element values: a host that keeps its containers and overwrites elements in place.
func envStdStruct3() interface{} {
	return &EnvStruct{
		N: 43, X: 3.5, S: "hollo", B: true,
		L: []int{4, 2, 4, 3}, Ls: []string{"b", "c", "b", "d"},
		M:  map[string]int{"k1": 11, "k2": 12, "k3": 13, "k4": 14},
		Mi: map[int]string{1: "uno", 2: "dos", 3: "tres"},
		O:  Inner{8, "eight", []string{"y", "z", "w"}},
		P:  &WithMaybe{A: 2.5, B: intp(6), C: nil},
		T:  time.Unix(1600000100, 0).In(zoneAnon),
		Ll: [][]int{{2, 3}, {4}},
		Lo: []Inner{{2, "b", nil2()}, {3, "c", []string{"u"}}},
		Mo: map[string]Inner{"u": {2, "b", []string{"r"}}, "v": {3, "c", []string{"s"}}},
	}
}

func envStdMap3() interface{} {
	e := envStdStruct3().(*EnvStruct)
	return map[string]interface{}{
		"n": e.N, "x": e.X, "s": e.S, "b": e.B, "l": e.L, "ls": e.Ls, "m": e.M, "mi": e.Mi,
		"o": e.O, "p": e.P, "t": e.T, "ll": e.Ll, "lo": e.Lo, "mo": e.Mo,
	}
}

// deepAssign overwrites dst with src IN PLACE wherever the shapes allow it: slices of
// equal length element by element, maps entry by entry (keys not in src are deleted),
// structs field by field, pointers through the pointer. Containers keep their identity.
// It returns false when dst could not be made equal to src in place (the caller then
// replaces the whole value).
func deepAssign(dst, src reflect.Value) bool {
	if dst.Type() != src.Type() {
		return setOr(dst, src)
	}
	switch dst.Kind() {
	case reflect.Ptr:
		if dst.IsNil() || src.IsNil() {
			return setOr(dst, src)
		}
		if !deepAssign(dst.Elem(), src.Elem()) {
			return setOr(dst, src)
		}
		return true
	case reflect.Interface:
		if dst.IsNil() || src.IsNil() || dst.Elem().Type() != src.Elem().Type() {
			return setOr(dst, src)
		}
		switch dst.Elem().Kind() {
		case reflect.Slice, reflect.Map, reflect.Ptr:
			// reference kinds: the interface holds a header / pointer, the payload is shared
			if deepAssign(dst.Elem(), src.Elem()) {
				return true
			}
		}
		return setOr(dst, src)
	case reflect.Slice:
		if dst.IsNil() || src.IsNil() || dst.Len() != src.Len() {
			return setOr(dst, src)
		}
		for i := 0; i < dst.Len(); i++ {
			if !deepAssign(dst.Index(i), src.Index(i)) {
				return setOr(dst, src)
			}
		}
		return true
	case reflect.Map:
		if dst.IsNil() || src.IsNil() {
			return setOr(dst, src)
		}
		for _, k := range dst.MapKeys() {
			if !src.MapIndex(k).IsValid() {
				dst.SetMapIndex(k, reflect.Value{})
			}
		}
		for _, k := range src.MapKeys() {
			old, nv := dst.MapIndex(k), src.MapIndex(k)
			if old.IsValid() {
				switch nv.Kind() {
				case reflect.Slice, reflect.Map, reflect.Ptr, reflect.Interface:
					// map values are not addressable: only payloads reachable through a
					// reference can be updated in place
					if deepAssign(old, nv) {
						continue
					}
				}
			}
			dst.SetMapIndex(k, nv)
		}
		return true
	case reflect.Struct:
		if dst.Type() == reflect.TypeOf(time.Time{}) {
			return setOr(dst, src)
		}
		if !dst.CanSet() {
			return false
		}
		for i := 0; i < dst.NumField(); i++ {
			if !deepAssign(dst.Field(i), src.Field(i)) {
				return false
			}
		}
		return true
	default:
		return setOr(dst, src)
	}
}

func setOr(dst, src reflect.Value) bool {
	if dst.CanSet() {
		dst.Set(src)
		return true
	}
	return false
}

var stdTyped = []string{"map", "struct", "map2", "struct2", "map3", "struct3", "structR"}

// sameTyped lists, per environment, the environments that bind the same names to the same types.
// host time values carry different zones: the text of a time value is a function of that value
// (instant and zone) alone, never of which time value the process happened to render first
var (
	zoneEST  = time.FixedZone("EST", -5*3600)
	zoneJST  = time.FixedZone("JST", 9*3600)
	zoneAnon = time.FixedZone("", 19800)
)

var sameTyped = map[string][]string{
	"map": stdTyped, "struct": stdTyped, "map2": stdTyped, "struct2": stdTyped, "map3": stdTyped, "struct3": stdTyped, "structR": stdTyped,
	"ifaceA": {"ifaceA", "ifaceA2"}, "ifaceA2": {"ifaceA", "ifaceA2"}, "ifaceB": {"ifaceB"},
	"alt": {"alt", "altstruct"}, "altstruct": {"alt", "altstruct"},
	"alt2": {"alt2", "alt2struct"}, "alt2struct": {"alt2", "alt2struct"},
}

func envSmall() interface{} {
	return map[string]interface{}{"n": 1, "s": "z", "b": false, "l": []int{9}}
}

// "alt" environments bind the SAME names as the standard ones to OTHER types, so a
// type-generic source text can be compiled on one engine under different typings.
type Inner2 struct {
	ID   string `yae:"id"`
	Name int    `yae:"name"`
	Tags []int  `yae:"tags"`
}

type WithMaybe2 struct {
	A string  `yae:"a"`
	B *string `yae:"b,maybe"`
	C *int    `yae:"c,maybe"`
}

type EnvStruct2 struct {
	N  string            `yae:"n"`
	X  string            `yae:"x"`
	S  int               `yae:"s"`
	B  bool              `yae:"b"`
	L  []string          `yae:"l"`
	Ls []int             `yae:"ls"`
	M  map[string]string `yae:"m"`
	Mi map[int]int       `yae:"mi"`
	O  Inner2            `yae:"o"`
	P  *WithMaybe2       `yae:"p"`
	T  time.Time         `yae:"t"`
	Ll [][]string        `yae:"ll"`
	Lo []Inner2          `yae:"lo"`
	Mo map[string]Inner2 `yae:"mo"`
	// keyed by time values, three of them within one second: keys are told apart at full resolution
	Mt map[time.Time]int `yae:"mt"`
}

func strp(s string) *string { return &s }

func envAltStruct() interface{} {
	return &EnvStruct2{
		N: "forty", X: "two", S: 7, B: true,
		L: []string{"c", "a", "c", "b"}, Ls: []int{1, 2, 1, 3},
		M:  map[string]string{"k1": "a", "k2": "b", "k3": "c", "k4": "d"},
		Mi: map[int]int{1: 10, 2: 20, 3: 30},
		O:  Inner2{"seven", 7, []int{1, 2}},
		P:  &WithMaybe2{A: "x", B: strp("five"), C: nil},
		T:  time.Unix(1600000000, 0),
		Ll: [][]string{{"a", "b"}, {"c"}},
		Lo: []Inner2{{"a", 1, []int{}}, {"b", 2, []int{3}}},
		Mo: map[string]Inner2{"u": {"a", 1, []int{4}}, "v": {"b", 2, []int{5}}},
		Mt: map[time.Time]int{
			time.Unix(1600000000, 100000000).UTC(): 1, time.Unix(1600000000, 200000000).UTC(): 2,
			time.Unix(1600000000, 300000001).UTC(): 3, time.Unix(1600000002, 0).UTC(): 4,
		},
	}
}

// "alt2": the same names again, but scalars and lists change places (n, x are lists, l and
// ll are scalars): a call that resolves to a polymorphic overload under one typing resolves
// to a monomorphic one under the other (n == x, l == l, string(n), if(b, n, x)).
type EnvStruct3 struct {
	N  []int            `yae:"n"`
	X  []int            `yae:"x"`
	S  string           `yae:"s"`
	B  bool             `yae:"b"`
	L  int              `yae:"l"`
	Ls string           `yae:"ls"`
	M  map[string]int   `yae:"m"`
	Mi map[int]string   `yae:"mi"`
	O  Inner            `yae:"o"`
	P  *WithMaybe       `yae:"p"`
	T  time.Time        `yae:"t"`
	Ll []int            `yae:"ll"`
	Lo []Inner          `yae:"lo"`
	Mo map[string]Inner `yae:"mo"`
}

func envAlt2Struct() interface{} {
	return &EnvStruct3{
		N: []int{4, 2}, X: []int{4, 2}, S: "héllo", B: true, L: 7, Ls: "str",
		M:  map[string]int{"k1": 1, "k2": 2, "k3": 3, "k4": 4},
		Mi: map[int]string{1: "one", 2: "two", 3: "three"},
		O:  Inner{7, "seven", []string{"x", "y", "z"}},
		P:  &WithMaybe{A: 1.5, B: intp(5), C: nil},
		T:  time.Unix(1600000000, 0).In(zoneEST),
		Ll: []int{1, 2},
		Lo: []Inner{{1, "a", nil2()}, {2, "b", []string{"t"}}},
		Mo: map[string]Inner{"u": {1, "a", []string{"q"}}, "v": {2, "b", []string{"r"}}},
	}
}

func envAlt2Map() interface{} {
	e := envAlt2Struct().(*EnvStruct3)
	return map[string]interface{}{
		"n": e.N, "x": e.X, "s": e.S, "b": e.B, "l": e.L, "ls": e.Ls, "m": e.M, "mi": e.Mi,
		"o": e.O, "p": e.P, "t": e.T, "ll": e.Ll, "lo": e.Lo, "mo": e.Mo,
	}
}

func envAltMap() interface{} {
	e := envAltStruct().(*EnvStruct2)
	return map[string]interface{}{
		"n": e.N, "x": e.X, "s": e.S, "b": e.B, "l": e.L, "ls": e.Ls, "m": e.M, "mi": e.Mi,
		"o": e.O, "p": e.P, "t": e.T, "ll": e.Ll, "lo": e.Lo, "mo": e.Mo, "mt": e.Mt,
	}
}

// "hetero" environments: host containers whose Go element type is concrete but whose
// entries convert to DIFFERENT yae types (interface-typed parts deeper down, nil-able
// pointer fields): conversion must fail, whichever entry map iteration visits first.
type HUser struct {
	Name   string
	Avatar *string
}

func envHetero1() interface{} {
	return map[string]interface{}{
		"n":  1,
		"hm": map[string][]interface{}{"a": {1, 2}, "b": {"x"}, "c": {3}, "d": {"y", "z"}},
	}
}

func envHetero2() interface{} {
	return map[string]interface{}{
		"n":  1,
		"hu": map[string]*HUser{"p": {"p", strp("a")}, "q": {"q", nil}, "r": {"r", strp("b")}, "s": {"s", nil}},
	}
}

var envMakers = map[string]func() interface{}{
	"map2":      envStdMap2,
	"struct2":   envStdStruct2,
	"map3":      envStdMap3,
	"struct3":   envStdStruct3,
	"hetero1":   envHetero1,
	"hetero2":   envHetero2,
	"alt":       envAltMap,
	"altstruct": envAltStruct,
	"structR":   envStdStructR,
	"ifaceA":    envIfaceA,
	"ifaceA2":   envIfaceA2,
	"ifaceB":    envIfaceB,
	"alt2":      envAlt2Map,
	"alt2struct": envAlt2Struct,
	"none":   func() interface{} { return nil },
	"map":    envStdMap,
	"struct": envStdStruct,
	"small":  envSmall,
	// the standard environment with ONE name of another type: as a raw run-time environment it is
	// the standard one's own object after a Put of that name (see shapeClass)
	"mixn": func() interface{} {
		m := envStdMap().(map[string]interface{})
		m["n"] = "forty"
		return m
	},
}
var envNames = []string{"map", "struct", "none", "small", "alt", "altstruct", "alt2", "alt2struct", "mixn"}

// deepSnapshot renders a host value for the "host data not modified" invariant.
func deepSnapshot(v interface{}) string {
	return snapRV(reflect.ValueOf(v), 0)
}

func snapRV(rv reflect.Value, d int) string {
	if !rv.IsValid() {
		return "nil"
	}
	if d > 20 {
		return "<deep>"
	}
	switch rv.Kind() {
	case reflect.Ptr, reflect.Interface:
		if rv.IsNil() {
			return "nil"
		}
		return "&" + snapRV(rv.Elem(), d+1)
	case reflect.Slice, reflect.Array:
		if rv.Kind() == reflect.Slice && rv.IsNil() {
			return "nil[]"
		}
		xs := make([]string, rv.Len())
		for i := range xs {
			xs[i] = snapRV(rv.Index(i), d+1)
		}
		if rv.Kind() == reflect.Slice && rv.Cap() > rv.Len() {
			// the spare capacity belongs to the host too: a write through an alias of the
			// backing array (an append in place) shows up here
			sp := rv.Slice(rv.Len(), rv.Cap())
			ys := make([]string, sp.Len())
			for i := range ys {
				ys[i] = snapRV(sp.Index(i), d+1)
			}
			return "[" + strings.Join(xs, ",") + "|spare:" + strings.Join(ys, ",") + "]"
		}
		return "[" + strings.Join(xs, ",") + "]"
	case reflect.Map:
		if rv.IsNil() {
			return "nilmap"
		}
		xs := make([]string, 0, rv.Len())
		it := rv.MapRange()
		for it.Next() {
			xs = append(xs, snapRV(it.Key(), d+1)+"=>"+snapRV(it.Value(), d+1))
		}
		sort.Strings(xs)
		return "map{" + strings.Join(xs, ",") + "}"
	case reflect.Struct:
		if t, ok := rv.Interface().(time.Time); ok {
			return "time(" + strconv.FormatInt(t.UnixNano(), 10) + ")"
		}
		xs := make([]string, rv.NumField())
		for i := range xs {
			xs[i] = rv.Type().Field(i).Name + ":" + snapRV(rv.Field(i), d+1)
		}
		return "{" + strings.Join(xs, ",") + "}"
	default:
		return fmt.Sprint(rv.Interface())
	}
}

// ---------------------------------------------------------------------------
// programs

type Prog struct {
	Src     string `json:"src"`
	Env     string `json:"env"`               // key into envMakers
	User    bool   `json:"user,omitempty"`    // needs an engine with user functions
	Generic bool   `json:"generic,omitempty"` // well-typed under the standard AND the "alt" typing of the names
}

// type-generic programs: the same source resolves to other overloads / other
// instantiations depending on the environment it is compiled against.
var genericSrcs = []string{
	"n == x", "n != n", "n + x", "l == l", "[l, l]", "[n, x] == l", "len(l) + len(ls)",
	"string(n) + string(l)", "get(l, 0, l[1])", "get(m, \"k1\", m[\"k2\"])", "if(b, n, x)", "b ? l : [n]",
	"{a: n, b: l}", "[n, x]", "union(l, [n])", "intersect(l, [l[0], x])", "diff(l, l)", "isset(m, \"k1\") && isset(mi, 1)",
	"get(mi, 1, mi[2])", "o.id == o.id", "[o.id, o.id]", "string(o)", "len(ll[0])", "lo[0].name == lo[1].name",
	"mo[\"u\"].id", "[n: l, x: l]", "get(p.b, p.a)", "[p.a, get(p.b, p.a)]", "union(lo, lo) == lo", "m == m && mi == mi", "len(ls)", "len(ls) + len(l)", "string(mt)", "len(mt) + len(m)", "[mt, mt][0] == mt",
	"[m[\"k1\"], m[\"k2\"]] == [m[\"k1\"], m[\"k2\"]]", "string([n: x])", "print(n) == n",
	"[print(n), print(x)]", "print(s) == print(s)", "print(o).id", "len(print(l)) + len(print(m))", "print(string(print(ls)))",
	// empty literals (the checker annotates their nodes like any other)
	"union(l, [])", "{a: [], b: [:], c: {}, d: n}", "len([]) + len([:]) + len(l)", "[l, []]", "if(b, [], l) == l",
}
var genericUserSrcs = []string{
	"[nest(len(l)), nest(nest(len(ls)))]", "when(b, nest(1), nest(2)) + nest(when(b, 3, 4))",
	"tr(n) == n", "first(l, n)", "when(b, n, x)", "[tr(n), tr(x)]", "when(orelse(b, false), first(l, x), n)",
}
var genericEnvs = []string{"map", "struct", "alt", "altstruct", "alt2", "alt2struct"}

func pickGeneric(r *rng, user bool) Prog {
	if user && r.chance(0.4) {
		return Prog{genericUserSrcs[r.intn(len(genericUserSrcs))], genericEnvs[r.intn(len(genericEnvs))], true, true}
	}
	return Prog{genericSrcs[r.intn(len(genericSrcs))], genericEnvs[r.intn(len(genericEnvs))], false, true}
}

// fixed pool: every documented feature at least once, plus some ill-typed ones.
var progPool = []Prog{
	{"1 + 2 * 3", "none", false, false},
	{"n + x * 2 - 1", "map", false, false},
	{"(n - 2) % 5 == 0 && b", "map", false, false},
	{"if(n > 40, s, \"no\")", "map", false, false},
	{"n > 100 ? \"big\" : n > 10 ? \"mid\" : \"small\"", "struct", false, false},
	{"b || l[10] > 0", "map", false, false},
	{"!b && l[10] > 0", "map", false, false},
	{"len(l) + len(s) + len(m)", "map", false, false},
	{"l.len() + s.len()", "struct", false, false},
	{"get(l, 1, 0) + get(l, 99, -1)", "map", false, false},
	{"get(m, \"k2\", 0) + get(m, \"zz\", 7)", "map", false, false},
	{"get(mi, 2, \"none\")", "struct", false, false},
	{"isset(m, \"k1\") && !isset(m, \"nope\")", "map", false, false},
	{"if(isset(m, \"q\"), m[\"q\"], -1)", "map", false, false},
	{"m[\"k3\"] + mi.len()", "struct", false, false},
	{"o.id + o.name.len()", "map", false, false},
	{"o.tags[1] + \"!\"", "struct", false, false},
	{"get(p.b, 0) + p.a", "map", false, false},
	{"get(p.c, \"dflt\")", "struct", false, false},
	{"[1, 2, 3] == l", "map", false, false},
	{"[\"k1\": 1, \"k2\": 2, \"k3\": 3, \"k4\": 4] == m", "map", false, false},
	{"union(l, [5, 1])", "map", false, false},
	{"intersect(l, [3, 2, 7])", "struct", false, false},
	{"diff(l, [3])", "map", false, false},
	{"union(ls, [\"c\"]) == [\"a\", \"b\", \"c\"]", "map", false, false},
	{"max(l) - min(l) + max(n, x)", "map", false, false},
	{"abs(0 - x) + ceil(x) + floor(x) + round(x)", "struct", false, false},
	{"2 ^ 3 ^ 2", "none", false, false},
	{"string(n) + string(b) + string(x)", "map", false, false},
	{"string(l)", "map", false, false},
	{"string(m)", "map", false, false},
	{"string(o)", "struct", false, false},
	{"string([1: [\"a\": 1, \"b\": 2], 2: [\"c\": 3, \"d\": 4]])", "none", false, false},
	{"match(\"^h.*o$\", s)", "map", false, false},
	{"match(\"^[0-9]+$\", string(n))", "struct", false, false},
	{"{id: n, name: s, inner: {l: l, m: m}}", "map", false, false},
	{"{id: n, name: s}.name", "struct", false, false},
	{"[{a: 1, b: \"x\"}, {a: 2, b: \"y\"}][1].b", "none", false, false},
	{"[n: s, n + 1: \"t\"]", "map", false, false},
	{"[[1, 2], [3], l]", "map", false, false},
	{"ll[0][1] + ll[1][0]", "struct", false, false},
	{"lo[1].name + lo[0].tags.len().string()", "map", false, false},
	{"mo[\"u\"].id + mo[\"v\"].id", "struct", false, false},
	{"'2020-01-02 03:04:05' < '2020-01-02 03:04:06'", "none", false, false},
	{"t - '2020-09-13 12:26:40 UTC'", "map", false, false},
	{"strtotime(\"2021-05-06 07:08:09 UTC\") > t", "struct", false, false},
	{"strtotime(\"2021-05-06 07:08:09 Asia/Tokyo\") - strtotime(\"2021-05-06 07:08:09 Europe/Paris\")", "none", false, false},
	{"strtotime(\"@86400\") == '1970-01-02 00:00:00 UTC'", "none", false, false},
	{"'2022-02-03T04:05:06+08:00' >= t", "map", false, false},
	// number keys beyond the int64 range
	{"[1e19: \"a\", 1e20: \"b\", 1e21: \"c\", 1e22: \"d\"]", "none", false, false},
	{"string([1e19: 1, 1e20: 2, 0 - 1e19: 3, 0 - 1e21: 4, 7: 5])", "none", false, false},
	// number keys that are different keys but closer to each other than the comparison epsilon
	{"string([0.1 + 0.2: \"sum\", 0.3: \"lit\", 7: \"seven\"])", "none", false, false},
	{"[0.0000000001: 1, 0.0000000002: 2, 0.0000000003: 3, 0.00000000015: 4]", "none", false, false},
	{"[x - x + 0.1 + 0.2: s, 0.3: \"lit\", 0.30000000001: \"near\"]", "map", false, false},
	// string() of something that is a str already, as the left operand of a concatenation
	{"string(s) + \"!\"", "map", false, false},
	{"string(\"item\") + \"#\" + string(n)", "struct", false, false},
	{"string(o.name) + s + string(ls[0])", "map", false, false},
	{"string(ls[0]) + \"x\" + ls[0]", "struct", false, false},
	// a list used again after a built-in that has looked at all of it
	{"[max(l), l, min(l), l]", "map", false, false},
	{"[min(l), l[0], max(l), l[1]]", "struct", false, false},
	{"string(l) + string(max(l)) + string(l)", "struct", false, false},
	// two unions over one list: neither result may share storage with the list or with the other
	{"[union(l, [9]), union(l, [8])]", "map", false, false},
	{"union(l, [4]) == union(l, [5])", "struct", false, false},
	{"[union(ls, [\"p\"]), union(ls, [\"q\"]), ls]", "map", false, false},
	{"string(t)", "map", false, false},
	{"[t, '2020-01-02 03:04:05']", "struct", false, false},
	{"{w: t, z: strtotime(\"@86400\")}", "map", false, false},
	{"[\"k\": t]", "struct", false, false},
	{"t", "struct", false, false},
	{"[] == l || [:] == m", "map", false, false},
	{"len([]) + len([:])", "none", false, false},
	{"get([], 0, 5)", "none", false, false},
	{"-n + +x", "map", false, false},
	{"n >= 42 && n <= 42 && n != 41 && x < 3", "struct", false, false},
	{"\"a\" + \"b\" == \"ab\" && \"a\" != \"b\"", "none", false, false},
	{"true and not false or false", "none", false, false},
	{"0x1F + 0b101 + 0o17 + 1e2 + 1.5e-1", "none", false, false},
	{"`raw\\n` + \"esc\\n\\u6653\"", "none", false, false},
	{"n + l[0]", "small", false, false},
	{"if(b, s, \"f\") + string(l)", "small", false, false},
	// user functions
	{"tr(n) + inc(tr(x))", "map", true, false},
	{"when(b, tr(1), tr(2)) + when(!b, tr(3), tr(4))", "map", true, false},
	{"when(n > 1, when(b, tr(\"aa\"), tr(\"ab\")), tr(\"b\"))", "struct", true, false},
	{"orelse(tr(b), tr(l[99] > 0))", "map", true, false},
	{"if(orelse(false, tr(n > 1)), first(l, 0), first([], 9))", "map", true, false},
	{"s <> \"x\" <> tr(\"y\")", "map", true, false},
	{"[tr(1), tr(2), tr(3)]", "none", true, false},
	{"{a: tr(\"1\"), b: tr(\"2\")}", "none", true, false},
	{"[tr(\"k\"): tr(1), tr(\"j\"): tr(2)]", "none", true, false},
	{"first(union(l, [inc(n)]), 0)", "map", true, false},
	{"nest(n) + nest(nest(x))", "map", true, false},
	{"when(orelse(b, nest(1) > 0), nest(tr(n)), when(b, nest(2), nest(3)))", "struct", true, false},
	{"[nest(1), when(b, nest(2), 0), orelse(nest(3) > 0, false)]", "none", true, false},
	// ill-typed / failing
	{"n + s", "map", false, false},
	{"undefined_name + 1", "map", false, false},
	{"l[0] +", "map", false, false},
	{"[1, \"a\"]", "none", false, false},
	{"o.nope", "struct", false, false},
	{"get(p.b, \"x\")", "map", false, false},
	{"p.b + 1", "map", false, false},
	{"l[99]", "map", false, false},
	{"m[\"absent\"]", "struct", false, false},
	{"match(\"(\", s)", "map", false, false},
	{"if(b, 1, \"x\")", "map", false, false},
}

var tzNames = []string{"UTC", "Asia/Tokyo", "Europe/Paris", "America/New_York", "Asia/Shanghai", "Europe/London",
	"Australia/Sydney", "America/Los_Angeles", "Asia/Kolkata", "Africa/Cairo", "America/Sao_Paulo", "Pacific/Auckland",
	"Europe/Berlin", "Asia/Dubai", "America/Chicago", "Asia/Singapore", "Europe/Moscow", "Asia/Seoul", "America/Denver",
	"Europe/Madrid", "Asia/Bangkok", "Africa/Lagos", "America/Toronto", "Europe/Rome", "Asia/Jakarta", "America/Mexico_City"}

// genProg composes a random well-typed program over the "map"/"struct" environment.
type gen struct {
	r    *rng
	user bool
}

func (g *gen) num(d int) string {
	r := g.r
	if d <= 0 {
		return r.pick([]string{"n", "x", "1", "2.5", "0", "7", "len(l)", "o.id", "p.a"})
	}
	switch r.intn(14) {
	case 0:
		return "(" + g.num(d-1) + " " + r.pick([]string{"+", "-", "*"}) + " " + g.num(d-1) + ")"
	case 1:
		return "if(" + g.boolean(d-1) + ", " + g.num(d-1) + ", " + g.num(d-1) + ")"
	case 2:
		return "get(" + g.list(d-1) + ", " + strconv.Itoa(r.intn(5)) + ", " + g.num(d-1) + ")"
	case 3:
		return "len(" + g.list(d-1) + ")"
	case 4:
		return "max(" + g.num(d-1) + ", " + g.num(d-1) + ")"
	case 5:
		return "get(m, " + g.str(d-1) + ", " + g.num(d-1) + ")"
	case 6:
		return "(" + g.boolean(d-1) + " ? " + g.num(d-1) + " : " + g.num(d-1) + ")"
	case 7:
		return "len(" + g.str(d-1) + ")"
	case 8:
		return "get(p.b, " + g.num(d-1) + ")"
	case 9:
		if g.user {
			return r.pick([]string{"tr", "inc"}) + "(" + g.num(d-1) + ")"
		}
		return "abs(" + g.num(d-1) + ")"
	case 10:
		if g.user {
			return "when(" + g.boolean(d-1) + ", " + g.num(d-1) + ", " + g.num(d-1) + ")"
		}
		return "min(" + g.num(d-1) + ", " + g.num(d-1) + ")"
	case 11:
		return "{a: " + g.num(d-1) + ", b: " + g.str(d-1) + "}.a"
	case 12:
		return "(" + g.time(d-1) + " - " + g.time(d-1) + ")"
	default:
		if g.user {
			return "first(" + g.list(d-1) + ", " + g.num(d-1) + ")"
		}
		return "round(" + g.num(d-1) + ")"
	}
}

func (g *gen) boolean(d int) string {
	r := g.r
	if d <= 0 {
		return r.pick([]string{"b", "true", "false", "n > 1", "isset(m, \"k1\")"})
	}
	switch r.intn(9) {
	case 0:
		return "(" + g.num(d-1) + " " + r.pick([]string{"<", "<=", ">", ">=", "==", "!="}) + " " + g.num(d-1) + ")"
	case 1:
		return "(" + g.boolean(d-1) + " " + r.pick([]string{"&&", "||", "and", "or"}) + " " + g.boolean(d-1) + ")"
	case 2:
		return "!" + g.boolean(d-1)
	case 3:
		return "(" + g.str(d-1) + " == " + g.str(d-1) + ")"
	case 4:
		return "(" + g.list(d-1) + " == " + g.list(d-1) + ")"
	case 5:
		return "isset(m, " + g.str(d-1) + ")"
	case 6:
		return "(" + g.time(d-1) + " " + r.pick([]string{"<", ">=", "=="}) + " " + g.time(d-1) + ")"
	case 7:
		if g.user {
			return "orelse(" + g.boolean(d-1) + ", " + g.boolean(d-1) + ")"
		}
		// a pattern this process has (most likely) not seen before
		return fmt.Sprintf("match(\"^[a-z%d]{0,%d}%s?$\", %s)", r.intn(10), 1+r.intn(30), r.pick([]string{"x", "y", "é", "0"}), g.str(d-1))
	default:
		return "if(" + g.boolean(d-1) + ", " + g.boolean(d-1) + ", " + g.boolean(d-1) + ")"
	}
}

func (g *gen) str(d int) string {
	r := g.r
	if d <= 0 {
		return r.pick([]string{"s", "\"k1\"", "\"zz\"", "o.name", "\"\"", "ls[0]"})
	}
	switch r.intn(7) {
	case 0:
		return "(" + g.str(d-1) + " + " + g.str(d-1) + ")"
	case 1:
		return "string(" + g.num(d-1) + ")"
	case 2:
		return "string(" + g.list(d-1) + ")"
	case 3:
		return "if(" + g.boolean(d-1) + ", " + g.str(d-1) + ", " + g.str(d-1) + ")"
	case 4:
		return "get(mi, " + g.num(d-1) + ", " + g.str(d-1) + ")"
	case 5:
		if g.user {
			return "(" + g.str(d-1) + " <> " + g.str(d-1) + ")"
		}
		return "get(ls, 1, " + g.str(d-1) + ")"
	default:
		return "string([" + g.str(d-1) + ": " + g.num(d-1) + ", \"q\": 1])"
	}
}

func (g *gen) list(d int) string {
	r := g.r
	if d <= 0 {
		return r.pick([]string{"l", "[1, 2]", "[n, x]", "ll[0]"})
	}
	switch r.intn(6) {
	case 0:
		return "[" + g.num(d-1) + ", " + g.num(d-1) + "]"
	case 1:
		return r.pick([]string{"union", "intersect", "diff"}) + "(" + g.list(d-1) + ", " + g.list(d-1) + ")"
	case 2:
		return "if(" + g.boolean(d-1) + ", " + g.list(d-1) + ", " + g.list(d-1) + ")"
	case 3:
		return "[" + g.num(d-1) + "]"
	case 4:
		return "get(ll, " + strconv.Itoa(r.intn(3)) + ", " + g.list(d-1) + ")"
	default:
		return "{q: " + g.list(d-1) + "}.q"
	}
}

func (g *gen) time(d int) string {
	r := g.r
	if d <= 0 || r.chance(0.6) {
		switch r.intn(4) {
		case 0:
			return "t"
		case 1:
			return fmt.Sprintf("'20%02d-%02d-%02d %02d:%02d:%02d'", r.intn(40), 1+r.intn(12), 1+r.intn(28), r.intn(24), r.intn(60), r.intn(60))
		case 2:
			return fmt.Sprintf("strtotime(\"20%02d-%02d-%02d %02d:00:00 %s\")", r.intn(40), 1+r.intn(12), 1+r.intn(28), r.intn(24), r.pick(tzNames))
		default:
			return fmt.Sprintf("strtotime(\"@%d\")", r.intn(2000000000))
		}
	}
	return "if(" + g.boolean(d-1) + ", " + g.time(d-1) + ", " + g.time(d-1) + ")"
}

func genProg(r *rng, user bool) Prog {
	g := &gen{r, user}
	d := 1 + r.intn(3)
	var src string
	switch r.intn(6) {
	case 0:
		src = g.num(d)
	case 1:
		src = g.boolean(d)
	case 2:
		src = g.str(d)
	case 3:
		src = g.list(d)
	case 4:
		src = "[" + g.str(d-1) + ": " + g.num(d-1) + ", " + g.str(d-1) + ": " + g.num(d-1) + "]"
	default:
		src = "{a: " + g.num(d-1) + ", b: " + g.list(d-1) + ", c: " + g.time(d-1) + "}"
	}
	env := "map"
	if r.chance(0.4) {
		env = "struct"
	}
	return Prog{src, env, user, false}
}

func pickProg(r *rng, user bool) Prog {
	if r.chance(0.2) {
		return pickGeneric(r, user)
	}
	if r.chance(0.5) {
		return genProg(r, user)
	}
	for i := 0; i < 50; i++ {
		p := progPool[r.intn(len(progPool))]
		if !p.User || user {
			return p
		}
	}
	return progPool[0]
}

// ---------------------------------------------------------------------------
// stdout capture

type stdoutCapture struct {
	old  *os.File
	file *os.File
	path string
}

func captureStdout(path string) *stdoutCapture {
	f, err := os.Create(path)
	if err != nil {
		harnessFatal("capture stdout: %v", err)
	}
	c := &stdoutCapture{old: os.Stdout, file: f, path: path}
	os.Stdout = f
	curCapture = c
	return c
}

// curCapture: the process's active capture (C14 compares what the solo and the concurrent
// runs of a scenario printed).
var curCapture *stdoutCapture

// printedLines: what has been printed since the last read, as a sorted multiset of lines.
func printedLines() string {
	if curCapture == nil {
		return ""
	}
	ls := strings.Split(curCapture.read(), "\n")
	sort.Strings(ls)
	return strings.Join(ls, "\n")
}

// read returns what was written since the last read and truncates.
func (c *stdoutCapture) read() string {
	b, err := os.ReadFile(c.path)
	if err != nil {
		harnessFatal("read capture: %v", err)
	}
	if len(b) > 0 {
		_ = c.file.Truncate(0)
		_, _ = c.file.Seek(0, 0)
	}
	return string(b)
}

func (c *stdoutCapture) restore() {
	os.Stdout = c.old
	c.file.Close()
	os.Remove(c.path)
}

func harnessFatal(format string, a ...interface{}) {
	fmt.Fprintf(os.Stderr, "HARNESS-ERROR: "+format+"\n", a...)
	os.Exit(2)
}

var _ = closure.Compile
