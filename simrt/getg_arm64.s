#include "textflag.h"

// func getg() uintptr
TEXT ·getg(SB),NOSPLIT,$0-8
	MOVD g, R0
	MOVD R0, ret+0(FP)
	RET
