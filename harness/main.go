// Command harness is the deterministic-simulation driver for the claimed
// properties of goghcrow/yae. It is built (by /verif/check) against the
// instrumented scratch copy of /repo. One binary plays three roles:
//
//	harness run    -prop C14 ...   coordinator: spawns workers, merges, minimises, writes evidence
//	harness worker -prop C14 ...   one OS process running a batch of simulated runs
//	harness replay -prop C14 -file F   re-executes a replay file in a fresh process
package main

import (
	"bufio"
	"bytes"
	"encoding/json"
	"flag"
	"fmt"
	"os"
	"os/exec"
	"path/filepath"
	"runtime"
	"runtime/debug"
	"runtime/pprof"
	"sort"
	"strings"
	"sync"
	"sync/atomic"
	"syscall"
	"time"
)

// ReplayFile is self-contained: explicit workload + explicit schedule/fault lists.
type ReplayFile struct {
	Property string          `json:"property"`
	Seed     uint64          `json:"seed"`
	Expect   string          `json:"expect_signature"`
	Kind     string          `json:"kind"`
	Detail   string          `json:"detail,omitempty"`
	TZ       string          `json:"tz,omitempty"`
	Prefix   *Prefix         `json:"prefix,omitempty"` // runs that preceded the failing one in the same process (generator coordinates)
	Case     json.RawMessage `json:"case"`             // property-specific explicit case
	Minimised bool           `json:"minimised"`
	Reproduced bool          `json:"replay_reproduced"`
	Note     string          `json:"note,omitempty"`
}

type Prefix struct {
	Seed  uint64 `json:"seed"`
	Wid   int    `json:"wid"`
	Batch int    `json:"batch"`
	Count int    `json:"count"`
	NW    int    `json:"nw,omitempty"` // worker count of the run that produced the prefix (C17's sweep index depends on it)
}

// Record is one line of worker output.
type Record struct {
	T       string                 `json:"t"` // batch | viol
	Wid     int                    `json:"wid"`
	Batch   int                    `json:"batch"`
	Runs    int                    `json:"runs,omitempty"`
	Hashes  []uint64               `json:"hashes,omitempty"` // event-log hashes of non-trivial runs
	Counts  map[string]int64       `json:"counts,omitempty"`
	Samples []json.RawMessage      `json:"samples,omitempty"`
	Viol    *Violation             `json:"viol,omitempty"`
	Replay  *ReplayFile            `json:"replay,omitempty"`
	Extra   map[string]interface{} `json:"extra,omitempty"`
}

type driver interface {
	ID() string
	// Batch runs `count` simulated runs (or until deadline) and emits records.
	Batch(seed uint64, wid, batch, count int, deadline time.Time, emit func(*Record))
	// Replay executes the case (after its prefix) and returns the violation it produced, if any.
	Replay(rf *ReplayFile) *Violation
	// GenCase re-derives the explicit case for generator coordinates (used when a worker process died).
	GenCase(seed uint64, wid, batch, i int) json.RawMessage
	// Candidates proposes smaller variants of a failing replay file.
	Candidates(rf *ReplayFile) []*ReplayFile
	Rule() string
	Assumptions() []string
	Components() map[string][]string
	BatchSize(tier string) int
	NeedsTZ() bool
}

var drivers = map[string]driver{}

func main() {
	if len(os.Args) < 2 {
		fmt.Fprintln(os.Stderr, "usage: harness run|worker|replay|pool ...")
		os.Exit(2)
	}
	switch os.Args[1] {
	case "run":
		coordinator(os.Args[2:])
	case "worker":
		workerMain(os.Args[2:])
	case "replay":
		replayMain(os.Args[2:])
	case "gencase":
		gencaseMain(os.Args[2:])
	case "pool":
		poolMain()
	case "pristine13":
		pristine13Main(os.Args[2:])
	default:
		fmt.Fprintln(os.Stderr, "unknown mode", os.Args[1])
		os.Exit(2)
	}
}

// ---------------------------------------------------------------------------
// worker / replay processes

func workerMain(args []string) {
	fs := flag.NewFlagSet("worker", flag.ExitOnError)
	prop := fs.String("prop", "", "")
	seed := fs.Uint64("seed", 1, "")
	wid := fs.Int("wid", 0, "")
	batch := fs.Int("batch", 0, "")
	count := fs.Int("count", 50, "")
	deadline := fs.Int64("deadline", 0, "unix seconds")
	fs.Parse(args)
	d := drivers[*prop]
	if d == nil {
		harnessFatal("unknown property %q", *prop)
	}
	w := bufio.NewWriterSize(os.Stdout, 1<<20)
	realOut := os.Stdout
	_ = realOut
	emit := func(r *Record) {
		r.Wid, r.Batch = *wid, *batch
		b, err := json.Marshal(r)
		if err != nil {
			harnessFatal("marshal: %v", err)
		}
		w.Write(b)
		w.WriteByte('\n')
		w.Flush()
	}
	gcPolicy(d)
	dl := time.Unix(*deadline, 0)
	if *deadline == 0 {
		dl = time.Now().Add(time.Hour)
	}
	startWatchdog()
	if pf := os.Getenv("VERIF_CPUPROFILE"); pf != "" {
		f, _ := os.Create(fmt.Sprintf("%s.%d", pf, *wid))
		pprof.StartCPUProfile(f)
		defer pprof.StopCPUProfile()
	}
	d.Batch(*seed, *wid, *batch, *count, dl, emit)
	w.Flush()
}

func gencaseMain(args []string) {
	fs := flag.NewFlagSet("gencase", flag.ExitOnError)
	prop := fs.String("prop", "", "")
	seed := fs.Uint64("seed", 1, "")
	wid := fs.Int("wid", 0, "")
	batch := fs.Int("batch", 0, "")
	i := fs.Int("i", 0, "")
	fs.Parse(args)
	d := drivers[*prop]
	if d == nil {
		harnessFatal("unknown property %q", *prop)
	}
	os.Stdout.Write(d.GenCase(*seed, *wid, *batch, *i))
}

// classifyCrash recognises a Go runtime fatal error (not recoverable, kills the
// process) in a child's stderr. Harness errors are never classified as crashes.
func classifyCrash(stderr string) (string, bool) {
	if strings.Contains(stderr, "HARNESS-ERROR") {
		return "", false
	}
	switch {
	case strings.Contains(stderr, "unexpected fault address"), strings.Contains(stderr, "SIGSEGV"), strings.Contains(stderr, "SIGBUS"):
		return "crash:sigsegv", true
	case strings.Contains(stderr, "out of memory"), strings.Contains(stderr, "cannot allocate memory"):
		return "crash:out-of-memory", true
	case strings.Contains(stderr, "stack exceeds"):
		return "crash:stack-overflow", true
	case strings.Contains(stderr, "concurrent map"):
		return "crash:concurrent-map-access", true
	case strings.Contains(stderr, "fatal error:"):
		return "crash:fatal", true
	}
	return "", false
}

// replayMain: the outer process only supervises; the case runs in an inner child,
// so that a process-killing fault (SIGSEGV through an unsafe cast, out of memory)
// is reported as a violation signature instead of taking the harness down.
func replayMain(args []string) {
	if os.Getenv("VERIF_REPLAY_INNER") != "1" {
		self, _ := os.Executable()
		cmd := exec.Command(self, append([]string{"replay"}, args...)...)
		cmd.Env = append(os.Environ(), "VERIF_REPLAY_INNER=1")
		var out, errb bytes.Buffer
		cmd.Stdout, cmd.Stderr = &out, &errb
		err := cmd.Run()
		os.Stdout.Write(out.Bytes())
		if err == nil {
			os.Exit(0)
		}
		if sig, ok := classifyCrash(errb.String()); ok {
			fmt.Printf("REPLAY-RESULT sig=%s\n", sig)
			fmt.Printf("REPLAY-DETAIL %s\n", strings.ReplaceAll(clip(errb.String()), "\n", "\\n"))
			os.Exit(1)
		}
		os.Stderr.Write(errb.Bytes())
		if ee, ok := err.(*exec.ExitError); ok {
			os.Exit(ee.ExitCode())
		}
		os.Exit(2)
	}
	fs := flag.NewFlagSet("replay", flag.ExitOnError)
	prop := fs.String("prop", "", "")
	file := fs.String("file", "", "")
	fs.Parse(args)
	b, err := os.ReadFile(*file)
	if err != nil {
		harnessFatal("%v", err)
	}
	var rf ReplayFile
	if err := json.Unmarshal(b, &rf); err != nil {
		harnessFatal("replay file: %v", err)
	}
	if *prop == "" {
		*prop = rf.Property
	}
	d := drivers[*prop]
	if d == nil {
		harnessFatal("unknown property %q", *prop)
	}
	gcPolicy(d)
	startWatchdog()
	v := d.Replay(&rf)
	if v == nil {
		fmt.Println("REPLAY-RESULT none")
		os.Exit(0)
	}
	fmt.Printf("REPLAY-RESULT sig=%s\n", v.Sig)
	fmt.Printf("REPLAY-DETAIL %s\n", strings.ReplaceAll(clip(v.Detail), "\n", "\\n"))
	os.Exit(1)
}

// gcPolicy: for the single-task properties the collector runs only where the
// simulator says so (injected "gc" faults) and between runs. C14 keeps the
// background collector: with the race detector the heap of a collector-less
// process grows ~10x and throughput halves, and no C14 oracle depends on GC timing.
func gcPolicy(d driver) {
	if d.ID() != "C14" {
		debug.SetGCPercent(-1)
		// a fault in the code under test (garbage length read through an unsafe cast)
		// must kill this worker, not exhaust the machine
		lim := syscall.Rlimit{Cur: 12 << 30, Max: 12 << 30}
		_ = syscall.Setrlimit(syscall.RLIMIT_AS, &lim)
	}
}

// watchdog: the turn holder must keep reaching yields; a process that makes no
// progress for a long real time is a harness stall (exit 2), never a violation.
var progressTick int64
var progressMu sync.Mutex

func tick() {
	progressMu.Lock()
	progressTick++
	progressMu.Unlock()
}

func startWatchdog() {
	go func() {
		last := int64(-1)
		idle := 0
		for {
			time.Sleep(5 * time.Second)
			progressMu.Lock()
			cur := progressTick
			progressMu.Unlock()
			if cur == last {
				idle++
				if idle >= 24 {
					buf := make([]byte, 1<<16)
					n := runtime.Stack(buf, true)
					fmt.Fprintf(os.Stderr, "HARNESS-ERROR: watchdog: no run completed in 120 s\n%s\n", buf[:n])
					os.Exit(2)
				}
			} else {
				idle = 0
				last = cur
			}
		}
	}()
}

// ---------------------------------------------------------------------------
// known findings

type Finding struct {
	Status    string `json:"status"` // known | fixed
	Property  string `json:"property"`
	Signature string `json:"signature"`
	Commit    string `json:"commit,omitempty"`
	What      string `json:"what"`
}

type findingsFile struct {
	Findings []Finding `json:"findings"`
}

func loadFindings(path string) []Finding {
	b, err := os.ReadFile(path)
	if err != nil {
		return nil
	}
	var ff findingsFile
	if err := json.Unmarshal(b, &ff); err != nil {
		harnessFatal("known findings file %s: %v", path, err)
	}
	return ff.Findings
}

// ---------------------------------------------------------------------------
// coordinator

type evidence struct {
	PropertyID  string                 `json:"property_id"`
	Tier        string                 `json:"tier"`
	Seed        int64                  `json:"seed"`
	Level       string                 `json:"level"`
	Coverage    map[string]interface{} `json:"coverage"`
	Assumptions []string               `json:"assumptions"`
	WallS       float64                `json:"wall_s"`
	Violations  int                    `json:"violations"`
}

func coordinator(args []string) {
	fs := flag.NewFlagSet("run", flag.ExitOnError)
	prop := fs.String("prop", "", "")
	tier := fs.String("tier", "quick", "")
	seed := fs.Uint64("seed", 1, "")
	workers := fs.Int("workers", 16, "")
	budget := fs.Int("budget", 60, "seconds of exploration")
	evPath := fs.String("evidence", "", "")
	replayDir := fs.String("replays", "", "")
	known := fs.String("known", "", "")
	scratch := fs.String("scratch", os.TempDir(), "")
	sites := fs.String("sites", "", "instrumenter report (site table)")
	minBudget := fs.Int("minimise", 90, "seconds for minimisation")
	fs.Parse(args)
	os.Setenv("VERIF_NWORKERS", fmt.Sprint(*workers)) // inherited by workers, gencase and replay children
	d := drivers[*prop]
	if d == nil {
		harnessFatal("unknown property %q", *prop)
	}
	start := time.Now()
	deadline := time.Unix(start.Add(time.Duration(*budget)*time.Second).Unix(), 0) // whole seconds: workers receive it as a unix time
	self, _ := os.Executable()

	type agg struct {
		mu      sync.Mutex
		runs    int64
		batches int
		hashes  map[uint64]struct{}
		counts  map[string]int64
		samples []json.RawMessage
		viols   []*Record
		extra   map[string]interface{}
		sites   map[uint32]struct{}
	}
	a := &agg{hashes: map[uint64]struct{}{}, counts: map[string]int64{}, extra: map[string]interface{}{}, sites: map[uint32]struct{}{}}
	var wg sync.WaitGroup
	stop := make(chan struct{})
	var stopOnce sync.Once
	// VERIF_STOP_AT_FIRST (sensitivity self-test only, never set by a registered command):
	// the first violation record ends the exploration at once, and nothing is minimised.
	fastStop := os.Getenv("VERIF_STOP_AT_FIRST") != ""
	var fastStopped int32
	var runMu sync.Mutex
	running := map[int]*exec.Cmd{}
	killAll := func() {
		atomic.StoreInt32(&fastStopped, 1)
		stopOnce.Do(func() { close(stop) })
		runMu.Lock()
		for _, c := range running {
			if c.Process != nil {
				c.Process.Kill()
			}
		}
		runMu.Unlock()
	}
	harnessErr := make(chan string, 64)
	bsz := d.BatchSize(*tier)
	tzs := []string{"", "UTC", "Asia/Shanghai", "America/New_York", "Europe/London", "Asia/Tokyo", "Australia/Sydney", "Asia/Kolkata"}
	for w := 0; w < *workers; w++ {
		wg.Add(1)
		go func(w int) {
			defer wg.Done()
			for b := 0; ; b++ {
				select {
				case <-stop:
					return
				default:
				}
				if time.Now().After(deadline) {
					return
				}
				cmd := exec.Command(self, "worker", "-prop", *prop,
					"-seed", fmt.Sprint(*seed), "-wid", fmt.Sprint(w), "-batch", fmt.Sprint(b),
					"-count", fmt.Sprint(bsz), "-deadline", fmt.Sprint(deadline.Unix()))
				cmd.Env = workerEnv(*scratch, w, b, tzFor(d, tzs, w, b))
				var stderr bytes.Buffer
				cmd.Stderr = &stderr
				out, err := cmd.StdoutPipe()
				if err != nil {
					harnessErr <- err.Error()
					return
				}
				if err := cmd.Start(); err != nil {
					harnessErr <- err.Error()
					return
				}
				runMu.Lock()
				running[w] = cmd
				runMu.Unlock()
				if fastStop && atomic.LoadInt32(&fastStopped) != 0 {
					cmd.Process.Kill()
				}
				sc := bufio.NewScanner(out)
				sc.Buffer(make([]byte, 1<<20), 1<<28)
				gotViol := false
				lastStart := -1
				for sc.Scan() {
					var r Record
					if err := json.Unmarshal(sc.Bytes(), &r); err != nil {
						if fastStop && atomic.LoadInt32(&fastStopped) != 0 {
							continue // the worker was killed in the middle of a line
						}
						harnessErr <- "bad worker record: " + err.Error() + ": " + clip(sc.Text())
						continue
					}
					a.mu.Lock()
					switch r.T {
					case "start":
						lastStart = r.Runs
					case "batch":
						a.runs += int64(r.Runs)
						a.batches++
						for _, h := range r.Hashes {
							a.hashes[h] = struct{}{}
						}
						for k, v := range r.Counts {
							a.counts[k] += v
						}
						if len(a.samples) < 3 && len(r.Samples) > 0 {
							a.samples = append(a.samples, r.Samples[0])
						}
						for k, v := range r.Extra {
							if k == "sites" {
								if l, ok := v.([]interface{}); ok {
									for _, x := range l {
										if f, ok := x.(float64); ok {
											a.sites[uint32(f)] = struct{}{}
										}
									}
								}
								continue
							}
							a.extra[k] = v
						}
					case "viol":
						rr := r
						a.viols = append(a.viols, &rr)
						gotViol = true
						if fastStop {
							go killAll()
						}
					}
					a.mu.Unlock()
				}
				err = cmd.Wait()
				runMu.Lock()
				delete(running, w)
				runMu.Unlock()
				cleanupRaceLogs(*scratch, w, b)
				if fastStop && atomic.LoadInt32(&fastStopped) != 0 {
					if lastStart > 0 {
						a.mu.Lock()
						a.runs += int64(lastStart)
						a.mu.Unlock()
					}
					return
				}
				if err != nil {
					if sig, ok := classifyCrash(stderr.String()); ok && lastStart >= 0 {
						// the process was killed by a fault inside the code under test
						gc := exec.Command(self, "gencase", "-prop", *prop, "-seed", fmt.Sprint(*seed),
							"-wid", fmt.Sprint(w), "-batch", fmt.Sprint(b), "-i", fmt.Sprint(lastStart))
						cs, gerr := gc.Output()
						if gerr != nil {
							harnessErr <- fmt.Sprintf("gencase failed: %v", gerr)
							return
						}
						rf := &ReplayFile{Case: cs, TZ: tzFor(d, tzs, w, b)}
						if lastStart > 0 {
							rf.Prefix = &Prefix{*seed, w, b, lastStart, *workers}
						}
						a.mu.Lock()
						a.viols = append(a.viols, &Record{T: "viol", Wid: w, Batch: b,
							Viol: &Violation{"crash", sig, "the worker process was killed by a Go runtime fatal error while running this case:\n" + clip(stderr.String())}, Replay: rf})
						a.runs += int64(lastStart)
						n := len(a.viols)
						a.mu.Unlock()
						if fastStop {
							killAll()
							return
						}
						if n >= 24 {
							stopOnce.Do(func() { close(stop) })
							return
						}
						continue
					}
					if ee, ok := err.(*exec.ExitError); ok && ee.ExitCode() == 2 || !gotViol {
						harnessErr <- fmt.Sprintf("worker %d batch %d: %v\n%s", w, b, err, clip(stderr.String()))
						stopOnce.Do(func() { close(stop) })
						return
					}
				}
				if gotViol {
					// keep exploring: a different violation may exist; but cap the number collected
					a.mu.Lock()
					n := len(a.viols)
					a.mu.Unlock()
					if n >= 24 {
						stopOnce.Do(func() { close(stop) })
						return
					}
				}
			}
		}(w)
	}
	wg.Wait()
	close(harnessErr)
	var herrs []string
	for e := range harnessErr {
		herrs = append(herrs, e)
	}
	if len(herrs) > 0 {
		for _, e := range herrs {
			fmt.Fprintln(os.Stderr, "HARNESS-ERROR:", e)
		}
		os.Exit(2)
	}
	exploreS := time.Since(start).Seconds()

	// --- violations: dedupe by signature, verify replay, minimise, classify
	findings := loadFindings(*known)
	bySig := map[string]*Record{}
	var sigs []string
	for _, v := range a.viols {
		if _, ok := bySig[v.Viol.Sig]; !ok {
			bySig[v.Viol.Sig] = v
			sigs = append(sigs, v.Viol.Sig)
		}
	}
	sort.Strings(sigs)
	exit := 0
	newViol := 0
	type vout struct {
		Sig, Path, Status string
	}
	var vouts []vout
	minDeadline := time.Now().Add(time.Duration(*minBudget) * time.Second)
	for n, sig := range sigs {
		rec := bySig[sig]
		rf := rec.Replay
		rf.Property, rf.Expect, rf.Kind, rf.Detail = d.ID(), sig, rec.Viol.Kind, clip(rec.Viol.Detail)
		rf.Seed = *seed
		md := minDeadline
		if n >= 6 || fastStop {
			md = time.Now() // many signatures: verify the replay of the rest, do not spend the budget minimising them
		}
		rf = verifyAndMinimise(self, d, rf, *scratch, md)
		path := ""
		if *replayDir != "" {
			os.MkdirAll(*replayDir, 0o755)
			path = filepath.Join(*replayDir, fmt.Sprintf("%s-%d-%d.json", d.ID(), *seed, n))
			b, _ := json.MarshalIndent(rf, "", " ")
			os.WriteFile(path, b, 0o644)
		}
		status := "new"
		for _, f := range findings {
			if f.Property == d.ID() && f.Status == "known" && sigMatch(f.Signature, sig) {
				status = "known"
				fmt.Printf("KNOWN-FINDING: property=%s %s (signature %s, replay %s)\n", d.ID(), f.What, sig, path)
			}
		}
		if status == "new" {
			fmt.Printf("VIOLATION property=%s replay=%s\n", d.ID(), path)
			fmt.Printf("  signature: %s\n  kind: %s\n  reproduced-in-fresh-process: %v minimised: %v\n  detail: %s\n",
				sig, rec.Viol.Kind, rf.Reproduced, rf.Minimised, strings.ReplaceAll(clip(rec.Viol.Detail), "\n", "\n    "))
			exit = 1
			newViol++
		}
		vouts = append(vouts, vout{sig, path, status})
	}

	// --- evidence
	wall := time.Since(start).Seconds()
	cov := map[string]interface{}{
		"evaluations":         a.runs,
		"distinct_nontrivial": len(a.hashes),
		"rule":                d.Rule(),
		"samples":             a.samples,
		"seeds":               []uint64{*seed},
		"worker_processes":    a.batches,
		"runs_per_hour":       int64(float64(a.runs) / exploreS * 3600),
		"explore_wall_s":      exploreS,
		"counts":              a.counts,
		"components":          d.Components(),
		"violations_found":    vouts,
		"workers":             *workers,
	}
	for k, v := range a.extra {
		cov[k] = v
	}
	if *sites != "" {
		if b, err := os.ReadFile(*sites); err == nil {
			var rep struct {
				Counts      map[string]int `json:"counts"`
				Unsupported []string       `json:"unsupported"`
				Knobs       []string       `json:"knobs"`
				Files       int            `json:"files"`
			}
			if json.Unmarshal(b, &rep) == nil {
				cov["instrumentation"] = rep
				if len(a.sites) > 0 {
					cov["yield_sites_total"] = rep.Counts["stmt"] + rep.Counts["store"] + rep.Counts["loop"]
					cov["yield_sites_with_a_preemption"] = len(a.sites)
				}
			}
		}
	}
	if vouts == nil {
		cov["violations_found"] = []string{}
	}
	if a.samples == nil {
		cov["samples"] = []string{}
	}
	ev := evidence{d.ID(), *tier, int64(*seed), "exploration", cov, d.Assumptions(), wall, newViol}
	if *evPath != "" {
		os.MkdirAll(filepath.Dir(*evPath), 0o755)
		b, _ := json.MarshalIndent(ev, "", " ")
		if err := os.WriteFile(*evPath, b, 0o644); err != nil {
			harnessFatal("evidence: %v", err)
		}
	}
	fmt.Printf("%s tier=%s seed=%d runs=%d distinct_nontrivial=%d worker_processes=%d wall=%.1fs violations(new)=%d known=%d\n",
		d.ID(), *tier, *seed, a.runs, len(a.hashes), a.batches, wall, newViol, len(sigs)-newViol)
	if a.runs == 0 && !(fastStop && newViol > 0) {
		fmt.Fprintln(os.Stderr, "HARNESS-ERROR: no simulated run completed")
		os.Exit(2)
	}
	os.Exit(exit)
}

func sigMatch(pattern, sig string) bool {
	if strings.HasSuffix(pattern, "*") {
		return strings.HasPrefix(sig, strings.TrimSuffix(pattern, "*"))
	}
	return pattern == sig
}

func tzFor(d driver, tzs []string, w, b int) string {
	if !d.NeedsTZ() {
		return "UTC"
	}
	return tzs[(w+b)%len(tzs)]
}

func workerEnv(scratch string, w, b int, tz string) []string {
	var env []string
	for _, e := range os.Environ() {
		if strings.HasPrefix(e, "GORACE=") || strings.HasPrefix(e, "TZ=") || strings.HasPrefix(e, "GOMAXPROCS=") && os.Getenv("VERIF_KEEP_GOMAXPROCS") == "" {
			continue
		}
		env = append(env, e)
	}
	env = append(env, fmt.Sprintf("GORACE=log_path=%s halt_on_error=0 exitcode=0 history_size=5", raceLogPrefix(scratch, w, b)))
	env = append(env, "TZ="+tz)
	env = append(env, "GOMAXPROCS=1") // one P: per-P structures of the runtime (sync.Pool private slots) are shared by all simulated tasks, as they are whenever two goroutines meet on a P
	return env
}

func raceLogPrefix(scratch string, w, b int) string {
	return filepath.Join(scratch, fmt.Sprintf("race-w%d-b%d", w, b))
}

func cleanupRaceLogs(scratch string, w, b int) {
	m, _ := filepath.Glob(raceLogPrefix(scratch, w, b) + ".*")
	for _, f := range m {
		os.Remove(f)
	}
}

// runReplayChild executes a replay file in a fresh process; returns the signature it produced ("" = none).
func runReplayChild(self string, rf *ReplayFile, scratch string, slot int) (string, error) {
	b, _ := json.Marshal(rf)
	path := filepath.Join(scratch, fmt.Sprintf("cand-%d-%d.json", os.Getpid(), slot))
	if err := os.WriteFile(path, b, 0o644); err != nil {
		return "", err
	}
	defer os.Remove(path)
	cmd := exec.Command(self, "replay", "-prop", rf.Property, "-file", path)
	tz := rf.TZ
	cmd.Env = workerEnv(scratch, 900+slot, os.Getpid(), tz)
	defer cleanupRaceLogs(scratch, 900+slot, os.Getpid())
	var out, errb bytes.Buffer
	cmd.Stdout, cmd.Stderr = &out, &errb
	done := make(chan error, 1)
	if err := cmd.Start(); err != nil {
		return "", err
	}
	go func() { done <- cmd.Wait() }()
	select {
	case err := <-done:
		if ee, ok := err.(*exec.ExitError); ok && ee.ExitCode() == 2 {
			return "", fmt.Errorf("replay child harness error: %s", clip(errb.String()))
		}
	case <-time.After(120 * time.Second):
		cmd.Process.Kill()
		return "", fmt.Errorf("replay child timed out")
	}
	for _, l := range strings.Split(out.String(), "\n") {
		if strings.HasPrefix(l, "REPLAY-RESULT sig=") {
			return strings.TrimPrefix(l, "REPLAY-RESULT sig="), nil
		}
	}
	return "", nil
}

func verifyAndMinimise(self string, d driver, rf *ReplayFile, scratch string, deadline time.Time) *ReplayFile {
	// 1. does the failing case reproduce alone (without the runs that preceded it)?
	try := func(c *ReplayFile, slot int) bool {
		sig, err := runReplayChild(self, c, scratch, slot)
		if err != nil {
			fmt.Fprintln(os.Stderr, "note:", err)
			return false
		}
		return sig == rf.Expect
	}
	if rf.Prefix != nil {
		c := *rf
		c.Prefix = nil
		if try(&c, 0) {
			rf = &c
		}
	}
	rf.Reproduced = try(rf, 0)
	if !rf.Reproduced {
		rf.Note = "the recorded case did not reproduce its signature in a fresh process (see DESIGN.md, limits); reported as found"
		return rf
	}
	// 2. greedy minimisation, candidates tested in parallel fresh processes
	for time.Now().Before(deadline) {
		cands := d.Candidates(rf)
		if len(cands) == 0 {
			break
		}
		found := -1
		for i := 0; i < len(cands) && found < 0 && time.Now().Before(deadline); i += 8 {
			end := i + 8
			if end > len(cands) {
				end = len(cands)
			}
			ok := make([]bool, end-i)
			var wg sync.WaitGroup
			for j := i; j < end; j++ {
				wg.Add(1)
				go func(j int) {
					defer wg.Done()
					c := cands[j]
					c.Property, c.Expect, c.Kind, c.Seed, c.TZ = rf.Property, rf.Expect, rf.Kind, rf.Seed, rf.TZ
					ok[j-i] = try(c, 1+j-i)
				}(j)
			}
			wg.Wait()
			for j := range ok {
				if ok[j] {
					found = i + j
					break
				}
			}
		}
		if found < 0 {
			rf.Minimised = true
			break
		}
		n := cands[found]
		n.Detail, n.Reproduced = rf.Detail, true
		rf = n
	}
	return rf
}
