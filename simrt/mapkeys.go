package simrt

import (
	"fmt"
	"reflect"
	"sort"
)

// MapKeys is the hash-order seam. `for k, v := range m` in the instrumented code
// becomes a range over MapKeys(m) followed by a re-lookup. The keys come back in a
// canonical (sorted) base order; when a simulation is active the simulator then
// permutes them according to Config.MapMode. Every order produced is one Go's
// runtime could have produced.
func MapKeys[M ~map[K]V, K comparable, V any](m M) []K {
	keys := make([]K, 0, len(m))
	for k := range m { // the map read stays visible to the race detector
		keys = append(keys, k)
	}
	if len(keys) < 2 {
		noteIter(false)
		return keys
	}
	sortKeys(keys)
	if perm := permutation(len(keys)); perm != nil {
		out := make([]K, len(keys))
		for i, p := range perm {
			out[i] = keys[p]
		}
		return out
	}
	return keys
}

// Entry is one element of a simulated map iteration: the key plus a reference to
// the map, so that the value is looked up when the iteration reaches it (entries
// deleted by the loop body before they are reached are skipped, as Go does).
type Entry[K comparable, V any] struct {
	K K
	m map[K]V
}

func (e Entry[K, V]) Get() (K, V, bool) {
	v, ok := e.m[e.K]
	return e.K, v, ok
}

// MapEntries is what `for k, v := range m` is rewritten to range over.
func MapEntries[M ~map[K]V, K comparable, V any](m M) []Entry[K, V] {
	keys := MapKeys(m)
	out := make([]Entry[K, V], len(keys))
	for i, k := range keys {
		out[i] = Entry[K, V]{k, m}
	}
	return out
}

// PermuteValues is the seam for reflect.Value.MapKeys().
func PermuteValues(keys []reflect.Value) []reflect.Value {
	if len(keys) < 2 {
		noteIter(false)
		return keys
	}
	sort.SliceStable(keys, func(i, j int) bool { return lessRV(keys[i], keys[j]) })
	if perm := permutation(len(keys)); perm != nil {
		out := make([]reflect.Value, len(keys))
		for i, p := range perm {
			out[i] = keys[p]
		}
		return out
	}
	return keys
}

// MapIter replaces *reflect.MapIter for rv.MapRange().
type MapIter struct {
	m    reflect.Value
	keys []reflect.Value
	i    int
}

func MapRange(m reflect.Value) *MapIter {
	return &MapIter{m: m, keys: PermuteValues(m.MapKeys()), i: -1}
}
func (it *MapIter) Next() bool {
	for {
		it.i++
		if it.i >= len(it.keys) {
			return false
		}
		if it.m.MapIndex(it.keys[it.i]).IsValid() {
			return true
		}
	}
}
func (it *MapIter) Key() reflect.Value   { return it.keys[it.i] }
func (it *MapIter) Value() reflect.Value { return it.m.MapIndex(it.keys[it.i]) }

//go:norace
func noteIter(permuted bool) {
	if !mine() {
		return
	}
	s.mapIters++
	if permuted {
		s.mapPerms++
	}
}

// permutation returns nil for identity, else a permutation of 0..n-1 (n >= 2).
//
//go:norace
func permutation(n int) []int {
	if !mine() {
		return nil
	}
	mode := s.cfg.MapMode
	if mode == MapSorted {
		s.mapIters++
		return nil
	}
	p := make([]int, n)
	for i := range p {
		p[i] = i
	}
	switch mode {
	case MapReverse:
		for i, j := 0, n-1; i < j; i, j = i+1, j-1 {
			p[i], p[j] = p[j], p[i]
		}
	case MapRotate:
		r := s.cfg.MapParam % n
		if r < 0 {
			r += n
		}
		for i := range p {
			p[i] = (i + r) % n
		}
	case MapShuffle:
		for i := n - 1; i > 0; i-- {
			j := s.intn(i + 1)
			p[i], p[j] = p[j], p[i]
		}
	}
	ident := true
	for i, v := range p {
		if i != v {
			ident = false
			break
		}
	}
	s.mapIters++
	if ident {
		return nil
	}
	s.mapPerms++
	s.mix(0x3a, uint64(n), uint64(p[0]), uint64(p[n-1]))
	return p
}

func sortKeys[K comparable](keys []K) {
	switch ks := any(keys).(type) {
	case []string:
		sort.Strings(ks)
	case []int:
		sort.Ints(ks)
	case []uintptr:
		sort.Slice(ks, func(i, j int) bool { return ks[i] < ks[j] })
	default:
		sort.SliceStable(keys, func(i, j int) bool {
			return lessRV(reflect.ValueOf(&keys[i]).Elem(), reflect.ValueOf(&keys[j]).Elem())
		})
	}
}

func lessRV(a, b reflect.Value) bool { return cmpRV(a, b) < 0 }

func cmpRV(a, b reflect.Value) int {
	if a.Kind() == reflect.Interface {
		if a.IsNil() || b.IsNil() {
			switch {
			case a.IsNil() && b.IsNil():
				return 0
			case a.IsNil():
				return -1
			}
			return 1
		}
		a, b = a.Elem(), b.Elem()
		if a.Type() != b.Type() {
			return cmpStr(a.Type().String(), b.Type().String())
		}
	}
	switch a.Kind() {
	case reflect.String:
		return cmpStr(a.String(), b.String())
	case reflect.Int, reflect.Int8, reflect.Int16, reflect.Int32, reflect.Int64:
		x, y := a.Int(), b.Int()
		switch {
		case x < y:
			return -1
		case x > y:
			return 1
		}
		return 0
	case reflect.Uint, reflect.Uint8, reflect.Uint16, reflect.Uint32, reflect.Uint64, reflect.Uintptr:
		x, y := a.Uint(), b.Uint()
		switch {
		case x < y:
			return -1
		case x > y:
			return 1
		}
		return 0
	case reflect.Float32, reflect.Float64:
		x, y := a.Float(), b.Float()
		switch {
		case x < y:
			return -1
		case x > y:
			return 1
		}
		return 0
	case reflect.Bool:
		x, y := a.Bool(), b.Bool()
		switch {
		case x == y:
			return 0
		case !x:
			return -1
		}
		return 1
	case reflect.Struct:
		for i := 0; i < a.NumField(); i++ {
			if c := cmpRV(a.Field(i), b.Field(i)); c != 0 {
				return c
			}
		}
		return 0
	case reflect.Array:
		for i := 0; i < a.Len(); i++ {
			if c := cmpRV(a.Index(i), b.Index(i)); c != 0 {
				return c
			}
		}
		return 0
	case reflect.Ptr, reflect.Chan, reflect.UnsafePointer:
		// addresses: no process-independent order exists; keep it total at least
		x, y := a.Pointer(), b.Pointer()
		switch {
		case x < y:
			return -1
		case x > y:
			return 1
		}
		return 0
	}
	return cmpStr(fmt.Sprint(a), fmt.Sprint(b))
}

func cmpStr(x, y string) int {
	switch {
	case x < y:
		return -1
	case x > y:
		return 1
	}
	return 0
}
