#!/bin/bash
# Sensitivity self-test: every patch under /verif/seeded/*/patch.diff and
# /verif/mutants/*.diff (property in meta.json / file name prefix) is applied to a
# scratch copy of /repo; the check of its property must report a violation within
# the quick budget. Nothing is ever applied to /repo itself.
# usage: sensitivity.sh [id-substring ...]
set -uo pipefail
VERIF=$(cd "$(dirname "$0")/.." && pwd)
REPO=${VERIF_REPO:-/repo}
BASE=$(mktemp -d "${TMPDIR:-/tmp}/verif-sens-XXXXXX")
trap 'rm -rf "$BASE"' EXIT
filter=("$@")
want() { [ ${#filter[@]} -eq 0 ] && return 0; for f in "${filter[@]}"; do [[ "$1" == *"$f"* ]] && return 0; done; return 1; }
pass=0; miss=0; results=()
run_one() { # id prop patch
  local id=$1 prop=$2 patch=$3 dir="$BASE/$1"
  mkdir -p "$dir"; rsync -a --exclude .git "$REPO/" "$dir/repo/"
  if ! (cd "$dir/repo" && patch -p1 -s --no-backup-if-mismatch < "$patch"); then
    echo "SENSITIVITY $id: patch does not apply to the current tree (skipped)"; results+=("$id skipped"); rm -rf "$dir"; return
  fi
  local out="$dir/out.txt"
  VERIF_REPO="$dir/repo" "$VERIF/check" "$(echo "$prop" | tr A-Z a-z)" --tier quick >"$out" 2>&1
  local rc=$?
  # evidence / replays written by this run belong to the mutant, not to /repo: restored below
  if [ $rc = 1 ] && grep -q "^VIOLATION property=$prop" "$out"; then
    echo "SENSITIVITY $id ($prop): detected  [$(grep -m1 'signature:' "$out" | sed 's/^ *//')] $(grep -o 'runs=[0-9]* .*wall=[0-9.]*s' "$out" | tail -1 | sed 's/distinct_nontrivial=[0-9]* //;s/worker_processes=[0-9]* //')"; pass=$((pass+1)); results+=("$id detected")
  else
    echo "SENSITIVITY $id ($prop): MISSED (exit $rc)"; tail -3 "$out"; miss=$((miss+1)); results+=("$id MISSED")
  fi
  rm -rf "$dir"
}
# keep the committed evidence / replays of the real tree intact
cp -a "$VERIF/evidence" "$BASE/evidence.bak"; cp -a "$VERIF/replays" "$BASE/replays.bak" 2>/dev/null || true
for d in "$VERIF"/seeded/*/; do
  id=$(basename "$d"); want "$id" || continue
  prop=$(python3 -c "import json;print(json.load(open('$d/meta.json'))['property'])")
  run_one "$id" "$prop" "$d/patch.diff"
done
for p in "$VERIF"/mutants/*.diff; do
  [ -e "$p" ] || continue
  id=$(basename "$p" .diff); want "$id" || continue
  prop=$(echo "$id" | cut -d- -f1 | tr a-z A-Z)
  run_one "$id" "$prop" "$p"
done
rm -rf "$VERIF/evidence" "$VERIF/replays"; cp -a "$BASE/evidence.bak" "$VERIF/evidence"; cp -a "$BASE/replays.bak" "$VERIF/replays" 2>/dev/null || mkdir -p "$VERIF/replays"
echo "sensitivity self-test: detected=$pass missed=$miss"
[ $miss = 0 ]
