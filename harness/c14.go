package main

import (
	"fmt"
	"os"
	"regexp"
	"sort"
	"strings"

	yae "github.com/goghcrow/yae"
	"github.com/goghcrow/yae/parser/ast"
	"github.com/goghcrow/yae/simrt"
	"github.com/goghcrow/yae/types"
	"github.com/goghcrow/yae/val"
)

// ---------------------------------------------------------------------------
// C14: k simulated tasks run short scripts of compile / invoke operations under
// a seeded scheduler; oracles: race detector, outcome == solo outcome, no deadlock.

type Op struct {
	K     string      `json:"k"`                // nop | engine | compile | invoke | eval | debug
	Spec  *EngineSpec `json:"spec,omitempty"`   // engine
	E     int         `json:"e,omitempty"`      // compile: engine ref (op index of an `engine` op of this task, or shared index)
	ES    bool        `json:"es,omitempty"`     // E refers to a shared engine
	Prog  *Prog       `json:"prog,omitempty"`   // compile / eval / debug
	C     int         `json:"c,omitempty"`      // invoke: callable ref (op index of a `compile` op of this task, or shared index)
	CS    bool        `json:"cs,omitempty"`     // C refers to a shared (pre-compiled) callable
	Env   string      `json:"env,omitempty"`    // invoke: environment maker
	EnvSh bool        `json:"env_sh,omitempty"` // invoke: use the scenario's shared read-only host value
	N     int         `json:"n,omitempty"`      // register: tag(x) = x + N is registered on the task's own engine E
}

type PreCompile struct {
	E    int  `json:"e"`
	Prog Prog `json:"prog"`
}

type Scenario struct {
	Shared     []EngineSpec `json:"shared,omitempty"`
	Pre        []PreCompile `json:"pre,omitempty"`
	Trees      []PreCompile `json:"trees,omitempty"` // sources parsed ONCE (Expr.Parse) during set-up; `csplit` ops compile the kept tree (Expr.CompileExpr)
	Tasks      [][]Op       `json:"tasks"`
	ColdFirst  bool         `json:"cold_first,omitempty"` // run the concurrent phase before any solo run
	Sweep      int          `json:"sweep,omitempty"`      // after the run proper: so many more concurrent runs with one sync-point preemption each
	timeFamily bool
	Sim        simrt.Config `json:"sim"`
}

type preState struct {
	engines   []*yae.Expr
	specs     []EngineSpec
	callables []yae.Callable
	callSpecs []EngineSpec
	envs      map[string]interface{}
	trees     []ast.Expr
	treeE     []int
}

var dummyRec = &recorder{}

func buildPre(sc *Scenario, recs []*recorder) *preState {
	ps := &preState{envs: map[string]interface{}{}}
	rf := func() *recorder {
		if !simrt.Active() {
			return dummyRec
		}
		i := simrt.CurTask()
		if i < 0 || i >= len(recs) {
			return dummyRec
		}
		return recs[i]
	}
	for _, spec := range sc.Shared {
		ps.engines = append(ps.engines, buildEngine(spec, rf))
		ps.specs = append(ps.specs, spec)
	}
	for _, pc := range sc.Pre {
		var c yae.Callable
		if pc.E >= 0 && pc.E < len(ps.engines) {
			func() {
				defer func() { recover() }()
				cc, err := ps.engines[pc.E].Compile(pc.Prog.Src, envMakers[pc.Prog.Env]())
				if err == nil {
					c = cc
				}
			}()
		}
		ps.callables = append(ps.callables, c)
		var cs EngineSpec
		if pc.E >= 0 && pc.E < len(ps.specs) {
			cs = ps.specs[pc.E]
		}
		ps.callSpecs = append(ps.callSpecs, cs)
	}
	if len(sc.Trees) > 0 {
		getBuiltinRT() // set-up is single-threaded; the tasks only read it
	}
	for _, tr := range sc.Trees {
		var t ast.Expr
		if tr.E >= 0 && tr.E < len(ps.engines) {
			func() {
				defer func() { recover() }()
				t = ps.engines[tr.E].Parse(tr.Prog.Src)
			}()
		}
		ps.trees = append(ps.trees, t)
		if tr.E >= 0 && tr.E < len(ps.engines) {
			ps.treeE = append(ps.treeE, tr.E)
		} else {
			ps.treeE = append(ps.treeE, -1)
		}
	}
	for name, mk := range envMakers {
		ps.envs[name] = mk()
	}
	return ps
}

// runScript executes one task's operations; returns one outcome string per op.
func runScript(ops []Op, ps *preState, rec *recorder, region bool) []string {
	out := make([]string, len(ops))
	engines := map[int]*yae.Expr{}
	specs := map[int]EngineSpec{}
	calls := map[int]yae.Callable{}
	callSpec := map[int]EngineSpec{}
	rf := func() *recorder { return rec }
	for i := range ops {
		op := &ops[i]
		rec.take()
		out[i] = func() (res string) {
			defer func() {
				if r := recover(); r != nil {
					if simrt.IsAbort(r) {
						panic(r)
					}
					res = "panic"
				}
			}()
			switch op.K {
			case "nop":
				return "nop"
			case "engine":
				engines[i] = buildEngine(*op.Spec, rf)
				specs[i] = *op.Spec
				return "ok"
			case "compile":
				var e *yae.Expr
				if op.ES {
					if op.E >= 0 && op.E < len(ps.engines) {
						e = ps.engines[op.E]
						callSpec[i] = ps.specs[op.E]
					}
				} else {
					e = engines[op.E]
					callSpec[i] = specs[op.E]
				}
				if e == nil {
					return "skip"
				}
				if region {
					simrt.Enter("h.compile")
					defer simrt.Leave("h.compile")
				}
				c, err := e.Compile(op.Prog.Src, envMakers[op.Prog.Env]())
				if err != nil {
					return "cerr"
				}
				calls[i] = c
				return "ok"
			case "invoke":
				var c yae.Callable
				var cspec EngineSpec
				if op.CS {
					if op.C >= 0 && op.C < len(ps.callables) {
						c = ps.callables[op.C]
						cspec = ps.callSpecs[op.C]
					}
				} else {
					c = calls[op.C]
					cspec = callSpec[op.C]
				}
				if c == nil {
					return "skip"
				}
				var env interface{}
				if op.EnvSh {
					env = ps.envs[op.Env]
				} else {
					env = envMakers[op.Env]()
				}
				if region {
					simrt.Enter("h.invoke")
					defer simrt.Leave("h.invoke")
				}
				v, dbg, err := callWith(cspec, c, env)
				if err != nil {
					return "err"
				}
				if dbg != "" {
					dbg = "|dbg:" + dbg
				}
				return "val:" + render(v) + callsSuffix(rec) + dbg
			case "csplit":
				// the two-step API: a tree parsed once during set-up and kept by the host is
				// compiled (Expr.CompileExpr) by several tasks at once, each against the type
				// environment of its own typing, and evaluated once
				if op.C < 0 || op.C >= len(ps.trees) || ps.trees[op.C] == nil {
					return "skip"
				}
				ei := ps.treeEng(op.C)
				if ei < 0 {
					return "skip"
				}
				if region {
					simrt.Enter("h.compile")
					defer simrt.Leave("h.compile")
				}
				var o obs
				tree := ps.trees[op.C]
				splitRun(&o, ps.engines[ei], ps.specs[ei], func(func() ast.Expr) ast.Expr { return tree }, "", op.Env)
				return o.Class + ":" + o.Value
			case "register":
				// a function registered on the task's OWN engine (possibly after that engine's
				// first compilation): other engines must neither see it nor be disturbed by it
				e := engines[op.E]
				if e == nil {
					return "skip"
				}
				add := float64(op.N)
				e.RegisterFun(val.Fun(types.Fun("tag", []*types.Type{types.Num}, types.Num), func(args ...*val.Val) *val.Val {
					return val.Num(args[0].Num().V + add)
				}))
				return "ok"
			case "eval":
				v, err := yae.Eval(op.Prog.Src, envMakers[op.Prog.Env]())
				if err != nil {
					return "err"
				}
				return "val:" + render(v)
			case "debug":
				v, _, err := yae.Debug(op.Prog.Src, envMakers[op.Prog.Env]())
				if err != nil {
					return "err"
				}
				return "val:" + render(v)
			}
			return "?"
		}()
		simrt.Mix(out[i])
	}
	return out
}

// coldBackend: engines the tasks build themselves; a fifth are set up by hand (see "extvm")
func coldBackend(r *rng) string {
	if r.chance(0.2) {
		return r.pick([]string{"extvm", "extclosure"})
	}
	return backends[r.intn(4)]
}

func (ps *preState) treeEng(i int) int {
	if i < 0 || i >= len(ps.treeE) {
		return -1
	}
	return ps.treeE[i]
}

func callsSuffix(rec *recorder) string {
	c := rec.take()
	if len(c) == 0 {
		return ""
	}
	return "|calls:" + strings.Join(c, ";")
}

type Violation struct {
	Kind   string `json:"kind"`   // race | outcome | deadlock | stall
	Sig    string `json:"sig"`    // stable signature (known-findings key)
	Detail string `json:"detail"` // human readable
}

type ScenResult struct {
	Hash         uint64           `json:"hash"`
	Steps        uint64           `json:"steps"`
	Preempt      int              `json:"preempt"`
	Switches     int              `json:"switches"`
	Outcomes     [][]string       `json:"outcomes,omitempty"`
	Decisions    []simrt.Decision `json:"decisions,omitempty"`
	Viol         *Violation       `json:"viol,omitempty"`
	Overlap      map[string]int   `json:"overlap,omitempty"`
	Faults       map[string]int   `json:"faults,omitempty"`
	MapPerms     int              `json:"map_perms"`
	LockSpins    int              `json:"lock_spins"`
	Sites        map[uint32]int   `json:"-"`
	SoloUnstable int              `json:"solo_unstable"`
	OpsRun       int              `json:"ops"`
	StepCap      bool             `json:"step_cap,omitempty"`
	DecOverflow  bool             `json:"dec_overflow,omitempty"`
	Sweeps       int              `json:"sweeps,omitempty"`
	FoundSim     *simrt.Config    `json:"-"` // the sweep variant that produced the violation
}

func soloCfg(sc *Scenario) simrt.Config {
	c := sc.Sim
	c.Sched = simrt.SchedRandom
	c.SwitchProb = 0
	c.Points = nil
	c.Decisions = nil
	c.Faults = nil
	c.MaxSteps = 5_000_000
	return c
}

// runScenario: solo runs (oracle) + the concurrent run.
func runScenario(sc *Scenario, raceLog *raceWatch) *ScenResult {
	k := len(sc.Tasks)
	res := &ScenResult{}
	soloRun := func() ([][]string, uint64) {
		outs := make([][]string, k)
		var steps uint64
		for t := 0; t < k; t++ {
			recs := []*recorder{{}}
			ps := buildPre(sc, recs)
			ops := sc.Tasks[t]
			r := simrt.Run(soloCfg(sc), func() { outs[t] = runScript(ops, ps, recs[0], false) })
			steps += r.Steps
			if r.StepCap || r.Deadlock {
				outs[t] = []string{"stall"}
			}
		}
		return outs, steps
	}
	var before [][]string
	var est uint64 = 4000
	printedLines() // discard leftovers
	var soloPrinted, concPrinted string
	if !sc.ColdFirst {
		before, est = soloRun()
		soloPrinted = printedLines()
		if v := raceLog.check(); v != nil {
			v.Detail = "race detector fired during a SOLO (single task) run: " + v.Detail
			res.Viol = v
			return res
		}
	}
	// concurrent run
	cfg := sc.Sim
	if cfg.MaxSteps == 0 {
		cfg.MaxSteps = 3_000_000
	}
	if cfg.SoftSteps == 0 {
		cfg.SoftSteps = 20*est + 20000
	}
	if cfg.Sched == simrt.SchedPCT && len(cfg.Points) == 0 && len(cfg.SyncPoints) == 0 && cfg.Seed != 0 {
		r := newRng(cfg.Seed, 77)
		d := 1 + r.intn(3)
		for i := 0; i < d; i++ {
			cfg.Points = append(cfg.Points, 1+uint64(r.intn(int(est)+1)))
		}
		sort.Slice(cfg.Points, func(i, j int) bool { return cfg.Points[i] < cfg.Points[j] })
	}
	var syncSeen uint64
	attempt := func(cfg simrt.Config) *ScenResult {
		recs := make([]*recorder, k)
		for i := range recs {
			recs[i] = &recorder{}
		}
		ps := buildPre(sc, recs)
		conc := make([][]string, k)
		bodies := make([]func(), k)
		for t := 0; t < k; t++ {
			t := t
			ops := sc.Tasks[t]
			bodies[t] = func() { conc[t] = runScript(ops, ps, recs[t], true) }
		}
		r := simrt.Run(cfg, bodies...)
		syncSeen = r.SyncSeen
		concPrinted = printedLines()
		res.Hash, res.Steps, res.Preempt, res.Switches = r.Hash, r.Steps, r.Preemptions, len(r.Decisions)
		res.Decisions = r.Decisions
		res.Overlap, res.Faults, res.MapPerms, res.LockSpins, res.Sites = r.Overlap, r.FaultsFired, r.MapPerms, r.LockSpins, r.SitesSwitched
		res.Outcomes = conc
		res.StepCap = r.StepCap
		res.DecOverflow = r.DecOverflow
		for _, o := range conc {
			res.OpsRun += len(o)
		}
		if v := raceLog.check(); v != nil {
			res.Viol = v
			return res
		}
		for t, p := range r.TaskPanics {
			if p != nil && !simrt.IsAbort(p) {
				harnessFatal("task %d: panic escaped the harness: %v", t, p)
			}
		}
		if r.Deadlock {
			res.Viol = &Violation{"deadlock", "deadlock", fmt.Sprintf("all runnable tasks blocked on locks after %d steps", r.Steps)}
			return res
		}
		if r.StepCap {
			res.Viol = &Violation{"stall", "stall", fmt.Sprintf("step cap %d exceeded (no task finished its script)", cfg.MaxSteps)}
			return res
		}
		if before == nil {
			before, _ = soloRun()
			soloPrinted = printedLines()
			if v := raceLog.check(); v != nil {
				v.Detail = "race detector fired during a SOLO (single task) run: " + v.Detail
				res.Viol = v
				return res
			}
		}
		var after [][]string // second solo pass, only computed when something differs
		if soloPrinted != concPrinted {
			// what the tasks print together is what they print alone, line by line (order across
			// tasks is free): output lost, duplicated, torn or attributed to another value
			after, _ = soloRun()
			raceLog.check()
			if again := printedLines(); again == soloPrinted {
				res.Viol = &Violation{"outcome", "outcome:stdout-lines",
					fmt.Sprintf("standard output of the concurrent run is not the lines of the solo runs\n alone     : %q\n concurrent: %q", clip(soloPrinted), clip(concPrinted))}
				return res
			}
			res.SoloUnstable++
		}
		for t := 0; t < k; t++ {
			for i := range sc.Tasks[t] {
				b, c := at(before, t, i), at(conc, t, i)
				if c == b {
					continue
				}
				if after == nil {
					after, _ = soloRun()
					raceLog.check()
				}
				if a := at(after, t, i); b != a {
					res.SoloUnstable++ // sequential nondeterminism: C13's business, not comparable here
					continue
				}
				op := sc.Tasks[t][i]
				src := ""
				if op.Prog != nil {
					src = op.Prog.Src
				}
				res.Viol = &Violation{"outcome",
					fmt.Sprintf("outcome:%s:%s->%s", op.K, class(b), class(c)),
					fmt.Sprintf("task %d op %d (%s %q): alone=%s concurrent=%s", t, i, op.K, src, clip(b), clip(c))}
				return res
			}
		}
		return res
	}
	if attempt(cfg); res.Viol != nil || sc.Sweep == 0 {
		return res
	}
	// single-preemption sweep: the same workload again, each time with ONE preemption at a
	// yield next to a synchronisation operation chosen among those the first run met, the rest
	// uninterrupted - walks the windows between critical sections instead of hoping for them
	total := syncSeen
	sr := newRng(cfg.Seed, 0x5eeb)
	for j := 0; j < sc.Sweep && total > 0; j++ {
		c2 := cfg
		c2.Sched, c2.Points, c2.Decisions = simrt.SchedPCT, nil, nil
		c2.SyncPoints = []uint64{1 + sr.u64()%total}
		c2.Seed = cfg.Seed + uint64(j) + 1
		res.Sweeps++
		if attempt(c2); res.Viol != nil {
			res.FoundSim = &c2
			return res
		}
	}
	return res
}

func at(o [][]string, t, i int) string {
	if t < len(o) && i < len(o[t]) {
		return o[t][i]
	}
	return "<none>"
}

func class(s string) string {
	if i := strings.IndexByte(s, ':'); i > 0 {
		return s[:i]
	}
	return s
}

func clip(s string) string {
	if len(s) > 300 {
		return s[:300] + "…"
	}
	return s
}

// ---------------------------------------------------------------------------
// race-detector log watcher

type raceWatch struct {
	path string // GORACE log_path prefix; the runtime appends .<pid>
	off  int64
}

func newRaceWatch() *raceWatch {
	if !simrt.RaceBuild {
		return &raceWatch{}
	}
	gr := os.Getenv("GORACE")
	for _, f := range strings.Fields(gr) {
		if strings.HasPrefix(f, "log_path=") {
			return &raceWatch{path: fmt.Sprintf("%s.%d", strings.TrimPrefix(f, "log_path="), os.Getpid())}
		}
	}
	harnessFatal("race build needs GORACE=log_path=...")
	return nil
}

// check returns a violation if the race detector reported since the last call.
func (w *raceWatch) check() *Violation {
	if w.path == "" {
		return nil
	}
	st, err := os.Stat(w.path)
	if err != nil || st.Size() <= w.off {
		return nil
	}
	b, err := os.ReadFile(w.path)
	if err != nil {
		harnessFatal("race log: %v", err)
	}
	txt := string(b[w.off:])
	w.off = st.Size()
	sig, ours := raceSignature(txt)
	if !ours {
		harnessFatal("race report does not involve instrumented repository code on both sides:\n%s", txt)
	}
	return &Violation{"race", sig, txt}
}

var modPathRe = regexp.MustCompile(`^.*github\.com/goghcrow/yae(@[^/]*)?/`)

// raceSignature extracts, for the first report in txt, the first repository frame
// of each of the two conflicting accesses. ours=false when a side has none.
func raceSignature(txt string) (sig string, ours bool) {
	lines := strings.Split(txt, "\n")
	var sides []string
	i := 0
	for i < len(lines) && len(sides) < 2 {
		l := lines[i]
		if strings.HasPrefix(l, "Read at ") || strings.HasPrefix(l, "Write at ") ||
			strings.HasPrefix(l, "Previous read at ") || strings.HasPrefix(l, "Previous write at ") ||
			strings.HasPrefix(l, "Atomic ") || strings.HasPrefix(l, "Previous atomic ") {
			kind := "R"
			if strings.Contains(strings.ToLower(l), "write") {
				kind = "W"
			}
			frame := ""
			j := i + 1
			for j+1 < len(lines) && strings.HasPrefix(lines[j], "  ") && strings.TrimSpace(lines[j]) != "" {
				fn := strings.TrimSpace(lines[j])
				loc := strings.TrimSpace(lines[j+1])
				if strings.Contains(fn, "github.com/goghcrow/yae") && !strings.Contains(fn, "/simrt.") && frame == "" {
					if k := strings.LastIndex(loc, " +0x"); k > 0 {
						loc = loc[:k]
					}
					loc = modPathRe.ReplaceAllString(loc, "")
					if k := strings.LastIndexByte(loc, ':'); k > 0 {
						loc = loc[:k] // drop the line: survives unrelated edits
					}
					fn = strings.TrimPrefix(fn, "github.com/goghcrow/yae/")
					fn = strings.TrimPrefix(fn, "github.com/goghcrow/yae.")
					fn = strings.TrimSuffix(fn, "()")
					frame = loc + ":" + fn
				}
				j += 2
			}
			sides = append(sides, kind+"@"+frame)
			i = j
			continue
		}
		i++
	}
	if len(sides) < 2 {
		return "race:unparsed", false
	}
	ours = !strings.HasSuffix(sides[0], "@") && !strings.HasSuffix(sides[1], "@")
	sort.Strings(sides)
	return "race:" + sides[0] + "|" + sides[1], ours
}

// ---------------------------------------------------------------------------
// scenario generation

// genTimeScenario: every task evaluates strtotime / time literals naming zones the
// process has (mostly) not seen yet: concurrent tz-cache misses, lock contention.
func genTimeScenario(r *rng, cold bool) *Scenario {
	// mostly concurrent-first: the solo runs would resolve every zone name before the tasks meet
	sc := &Scenario{ColdFirst: cold || r.chance(0.7), timeFamily: true}
	k := 2 + r.intn(3)
	zones := []string{r.pick(tzMany), r.pick(tzMany), r.pick(tzMany)}
	for t := 0; t < k; t++ {
		var ops []Op
		n := 1 + r.intn(3)
		for i := 0; i < n; i++ {
			z := zones[r.intn(len(zones))]
			var src string
			switch r.intn(3) {
			case 0:
				src = fmt.Sprintf("strtotime(\"2021-0%d-1%d 0%d:00:00 %s\")", 1+r.intn(9), r.intn(9), r.intn(9), z)
			case 1:
				src = fmt.Sprintf("'2019-1%d-2%d 1%d:30:00 %s' < t", r.intn(3), r.intn(8), r.intn(9), z)
			default:
				src = fmt.Sprintf("strtotime(\"2022-03-04 05:06:07 %s\") - strtotime(\"2022-03-04 05:06:07 %s\")", z, zones[r.intn(len(zones))])
			}
			p := Prog{Src: src, Env: "map"}
			ops = append(ops, Op{K: "eval", Prog: &p})
		}
		sc.Tasks = append(sc.Tasks, ops)
	}
	sc.Sim = genSimConfig(r)
	switch c := r.intn(10); {
	case c < 4:
		// the zone cache is a handful of short critical sections: sync-point preemptions
		sc.Sim.Sched, sc.Sim.Points, sc.Sim.SyncPoints = simrt.SchedPCT, nil, nil
		d := 1 + r.intn(3)
		for i := 0; i < d; i++ {
			sc.Sim.SyncPoints = append(sc.Sim.SyncPoints, 1+uint64(r.intn(1<<uint(1+r.intn(7)))))
		}
		sort.Slice(sc.Sim.SyncPoints, func(i, j int) bool { return sc.Sim.SyncPoints[i] < sc.Sim.SyncPoints[j] })
	case c < 8:
		sc.Sim.Sched, sc.Sim.SyncPoints, sc.Sim.SwitchProb = simrt.SchedRandom, nil, []float64{0.3, 1.0}[r.intn(2)]
	}
	return sc
}

// genContendScenario: every task compiles the SAME one or two type-generic sources on
// ONE shared, warmed engine under different typings of their names and invokes what
// it got: anything keyed by source text alone (memo, in-flight table, cached AST)
// hands one task the other task's compilation.
func genContendScenario(r *rng) *Scenario {
	sc := &Scenario{}
	user := r.chance(0.4)
	sc.Shared = []EngineSpec{{pickBackend(r), user, 0, false}}
	warm := pickProg(r, user)
	sc.Pre = []PreCompile{{0, warm}}
	srcs := []string{genericSrcs[r.intn(len(genericSrcs))], genericSrcs[r.intn(len(genericSrcs))]}
	k := 2 + r.intn(3)
	for t := 0; t < k; t++ {
		var ops []Op
		n := 1 + r.intn(3)
		for j := 0; j < n; j++ {
			p := Prog{srcs[r.intn(2)], genericEnvs[r.intn(len(genericEnvs))], false, true}
			ops = append(ops, Op{K: "compile", E: 0, ES: true, Prog: &p})
			ops = append(ops, Op{K: "invoke", C: len(ops) - 1, Env: p.Env, EnvSh: r.chance(0.3)})
		}
		sc.Tasks = append(sc.Tasks, ops)
	}
	sc.Sim = genSimConfig(r)
	sc.ColdFirst = r.chance(0.5)
	return sc
}

// genFailScenario: shared pre-compiled Callables of which about half FAIL at run time (index
// out of range, absent key, bad pattern), invoked by every task several times next to ones
// that succeed: whatever an aborted evaluation leaves behind (a half-unwound stack in a pool,
// a flag not reset, a lock not released) meets the next evaluation, of the same or another task.
var failSrcs = []string{"l[99]", "m[\"absent\"]", "ll[5][0] + 1", "lo[7].id", "l[n]", "match(\"(\", s)", "[1, 2][l[0] + 5]", "if(b, l[99], 0) + n", "mo[\"zz\"].id"}
var okSrcs = []string{"l[0] + n", "m[\"k1\"] + len(l)", "ll[0][1] + ll[1][0]", "lo[1].id + lo[0].id", "if(b, l[1], 0) + n", "string(l) + s", "max(l) - min(l)", "[l[0], l[1], n][2]"}

func genFailScenario(r *rng) *Scenario {
	sc := &Scenario{ColdFirst: r.chance(0.5)}
	sc.Shared = []EngineSpec{{[]string{"vm", "vm", "vmcall", "closure", "interp"}[r.intn(5)], false, 0, false}}
	np := 2 + r.intn(3)
	for i := 0; i < np; i++ {
		src := okSrcs[r.intn(len(okSrcs))]
		if i == 0 || r.chance(0.4) {
			src = failSrcs[r.intn(len(failSrcs))]
		}
		sc.Pre = append(sc.Pre, PreCompile{0, Prog{Src: src, Env: "map"}})
	}
	k := 2 + r.intn(3)
	for t := 0; t < k; t++ {
		var ops []Op
		n := 2 + r.intn(5)
		for i := 0; i < n; i++ {
			ci := r.intn(np)
			ops = append(ops, Op{K: "invoke", C: ci, CS: true, Env: invokeEnv(r, "map"), EnvSh: r.chance(0.3)})
		}
		sc.Tasks = append(sc.Tasks, ops)
	}
	sc.Sim = genSimConfig(r)
	return sc
}

// genSplitScenario: trees parsed once on a shared engine, compiled concurrently under
// different typings (see the `csplit` operation).
var splitSrcs = []string{"lo[0].id", "o.id", "m[\"k1\"]", "ll[0]", "mo[\"u\"].id", "l[0]", "o.tags[0]", "lo[1].tags", "len(ls)", "get(mi, 1, mi[2])", "[o.id, lo[0].id]", "string(o)"}

func genSplitScenario(r *rng) *Scenario {
	sc := &Scenario{ColdFirst: r.chance(0.6)}
	sc.Shared = []EngineSpec{{[]string{"vm", "vm", "vmcall", "closure", "interp"}[r.intn(5)], false, 0, false}}
	nt := 1 + r.intn(2)
	for i := 0; i < nt; i++ {
		sc.Trees = append(sc.Trees, PreCompile{0, Prog{Src: splitSrcs[r.intn(len(splitSrcs))]}})
	}
	k := 2 + r.intn(3)
	for t := 0; t < k; t++ {
		var ops []Op
		n := 1 + r.intn(4)
		for i := 0; i < n; i++ {
			ops = append(ops, Op{K: "csplit", C: r.intn(nt), Env: genericEnvs[r.intn(len(genericEnvs))]})
		}
		sc.Tasks = append(sc.Tasks, ops)
	}
	sc.Sim = genSimConfig(r)
	return sc
}

// genRegexScenario: every task evaluates match() with patterns the process has not
// compiled before (some shared between tasks): anything memoised per pattern is
// inserted and looked up concurrently.
func genRegexScenario(r *rng, cold bool) *Scenario {
	sc := &Scenario{ColdFirst: true}
	k := 2 + r.intn(3)
	pats := []string{
		fmt.Sprintf("^[a-z%d]{0,%d}h.*$", r.intn(10), 1+r.intn(40)),
		fmt.Sprintf("^h[^%d]{1,%d}o$", r.intn(10), 2+r.intn(40)),
		fmt.Sprintf("(é|l){%d,%d}", r.intn(3), 3+r.intn(40)),
	}
	// wide: dozens of distinct (cheap) patterns per scenario, so that anything bounded that
	// is keyed by pattern text overflows while several tasks are using it
	wide := r.chance(0.5)
	if wide {
		pats = nil
		base := r.intn(1000)
		for i := 0; i < 40; i++ {
			pats = append(pats, fmt.Sprintf("^(h|k%d)[a-zé]{%d,}o?$", base+i, i%5))
		}
	}
	for t := 0; t < k; t++ {
		var ops []Op
		n := 1 + r.intn(3)
		for i := 0; i < n; i++ {
			src := fmt.Sprintf("match(%q, s) || match(%q, o.name)", pats[r.intn(len(pats))], pats[r.intn(len(pats))])
			if wide {
				var parts []string
				for j := 0; j < 6; j++ {
					parts = append(parts, fmt.Sprintf("match(%q, %s)", pats[r.intn(len(pats))], []string{"s", "o.name", "ls[1]"}[j%3]))
				}
				src = "[" + strings.Join(parts, ", ") + "]"
			}
			p := Prog{Src: src, Env: []string{"map", "struct"}[r.intn(2)]}
			if r.chance(0.5) {
				ops = append(ops, Op{K: "eval", Prog: &p})
			} else {
				spec := EngineSpec{coldBackend(r), false, 0, false}
				ops = append(ops, Op{K: "engine", Spec: &spec})
				ops = append(ops, Op{K: "compile", E: len(ops) - 1, Prog: &p})
				ops = append(ops, Op{K: "invoke", C: len(ops) - 1, Env: p.Env, EnvSh: r.chance(0.5)})
			}
		}
		sc.Tasks = append(sc.Tasks, ops)
	}
	sc.Sim = genSimConfig(r)
	return sc
}

// genLazyScenario: pre-compiled shared Callables whose programs call user-registered LAZY
// functions (thunks, thunks inside thunks, call-backs into the library), invoked by every
// task on environments of equal types and different contents.
var lazySrcs = []string{
	"when(b, tr(n), tr(x)) + when(!b, nest(1), inc(2))",
	"when(n > 1, when(b, tr(\"aa\"), tr(\"ab\")), tr(s))",
	"orelse(tr(b), tr(l[0] > 100)) && orelse(n > 5, nest(n) > 0)",
	"[when(b, l, [n]), when(orelse(b, false), [x], l)]",
	"when(orelse(n > x, b), {a: tr(n), b: when(b, s, \"z\")}, {a: nest(x), b: s})",
	"first(when(b, l, [inc(n)]), when(b, 0, 1)) + len(when(!b, ls, [s]))",
}

func genLazyScenario(r *rng) *Scenario {
	sc := &Scenario{ColdFirst: r.chance(0.5)}
	sc.Shared = []EngineSpec{{pickBackend(r), true, 0, false}}
	np := 2 + r.intn(2)
	for i := 0; i < np; i++ {
		sc.Pre = append(sc.Pre, PreCompile{0, Prog{lazySrcs[r.intn(len(lazySrcs))], []string{"map", "struct"}[r.intn(2)], true, false}})
	}
	k := 2 + r.intn(3)
	envs := []string{"map", "struct", "map2", "struct2", "map3", "struct3"}
	for t := 0; t < k; t++ {
		var ops []Op
		n := 1 + r.intn(4)
		for j := 0; j < n; j++ {
			ops = append(ops, Op{K: "invoke", C: r.intn(np), CS: true, Env: envs[r.intn(len(envs))], EnvSh: r.chance(0.3)})
		}
		sc.Tasks = append(sc.Tasks, ops)
	}
	sc.Sim = genSimConfig(r)
	return sc
}

// genRegisterScenario: every task owns an engine, compiles something on it (the engine's
// first compilation is over), then registers ITS OWN function `tag` on it and uses it; some
// tasks never register and must get a compile error for `tag`. Registrations on one engine
// are nobody else's business.
func genRegisterScenario(r *rng, cold bool) *Scenario {
	sc := &Scenario{ColdFirst: cold || r.chance(0.5)}
	k := 2 + r.intn(3)
	for t := 0; t < k; t++ {
		var ops []Op
		spec := EngineSpec{coldBackend(r), r.chance(0.3), 0, false}
		ops = append(ops, Op{K: "engine", Spec: &spec})
		if r.chance(0.8) {
			p := pickProg(r, spec.UserFuns)
			ops = append(ops, Op{K: "compile", E: 0, Prog: &p})
		}
		if r.chance(0.7) {
			ops = append(ops, Op{K: "register", E: 0, N: 1000 * (t + 1)})
		}
		n := 1 + r.intn(3)
		for i := 0; i < n; i++ {
			p := Prog{Src: r.pick([]string{"tag(0) + n", "tag(n) * 2", "[tag(1), tag(2)]", "if(b, tag(x), tag(n))"}), Env: []string{"map", "struct"}[r.intn(2)]}
			ops = append(ops, Op{K: "compile", E: 0, Prog: &p})
			ops = append(ops, Op{K: "invoke", C: len(ops) - 1, Env: p.Env})
			if r.chance(0.3) {
				q := pickProg(r, spec.UserFuns)
				ops = append(ops, Op{K: "compile", E: 0, Prog: &q})
				ops = append(ops, Op{K: "invoke", C: len(ops) - 1, Env: q.Env})
			}
		}
		sc.Tasks = append(sc.Tasks, ops)
	}
	sc.Sim = genSimConfig(r)
	return sc
}

func genScenario(r *rng, cold bool) *Scenario {
	sc := genScenario0(r, cold)
	// a single-preemption sweep after the run proper: always affordable for the short time
	// scenarios, now and then for the others
	p := 0.05
	if sc.timeFamily {
		p = 0.4
	}
	if r.chance(p) {
		sc.Sweep = 4 + r.intn(4)
	}
	return sc
}

// genLayoutScenario: pre-compiled shared Callables that read object members, invoked by every
// task several times on environments of EQUAL types whose objects are laid out differently
// (struct / structR: the same fields declared in another order) or come from other carriers.
var layoutSrcs = []string{
	"o.id + n", "o.name + s", "lo[0].id + lo[1].id", "mo[\"u\"].name", "{a: o.id, b: o.tags, c: o.name}",
	"[lo[0].name, lo[1].name]", "len(o.tags) + o.id", "if(b, o.id, lo[0].id) + mo[\"v\"].id", "string(o) + o.name",
}

func genLayoutScenario(r *rng) *Scenario {
	sc := &Scenario{ColdFirst: r.chance(0.5)}
	sc.Shared = []EngineSpec{{[]string{"closure", "closure", "vm", "vmcall", "interp", "dbg"}[r.intn(6)], false, 0, false}}
	np := 1 + r.intn(2)
	for i := 0; i < np; i++ {
		sc.Pre = append(sc.Pre, PreCompile{0, Prog{Src: layoutSrcs[r.intn(len(layoutSrcs))], Env: []string{"struct", "structR", "map"}[r.intn(3)]}})
	}
	envs := []string{"struct", "structR", "map", "structR", "struct3"}
	k := 2 + r.intn(3)
	for t := 0; t < k; t++ {
		var ops []Op
		n := 2 + r.intn(4)
		for i := 0; i < n; i++ {
			ops = append(ops, Op{K: "invoke", C: r.intn(np), CS: true, Env: envs[r.intn(len(envs))]})
		}
		sc.Tasks = append(sc.Tasks, ops)
	}
	sc.Sim = genSimConfig(r)
	return sc
}

func genScenario0(r *rng, cold bool) *Scenario {
	if !cold && r.chance(0.08) {
		return genLazyScenario(r)
	}
	if !cold && r.chance(0.06) {
		return genLayoutScenario(r)
	}
	if !cold && r.chance(0.07) {
		return genFailScenario(r)
	}
	if !cold && r.chance(0.06) {
		return genSplitScenario(r)
	}
	if r.chance(0.07) {
		return genRegisterScenario(r, cold)
	}
	if r.chance(0.12) {
		return genTimeScenario(r, cold)
	}
	if r.chance(0.08) {
		return genRegexScenario(r, cold)
	}
	if !cold && r.chance(0.12) {
		return genContendScenario(r)
	}
	sc := &Scenario{}
	k := 2 + r.intn(3)
	if r.chance(0.1) {
		k = 5 + r.intn(2)
	}
	if !cold {
		ns := r.intn(3)
		for i := 0; i < ns; i++ {
			sc.Shared = append(sc.Shared, EngineSpec{pickBackend(r), r.chance(0.5), 0, false})
		}
		for e := range sc.Shared {
			np := 1 + r.intn(3)
			for j := 0; j < np; j++ {
				sc.Pre = append(sc.Pre, PreCompile{e, pickProg(r, sc.Shared[e].UserFuns)})
			}
		}
	}
	// concurrent phase first (the solo oracle afterwards) for half of the scenarios: the solo
	// runs would otherwise warm every value-keyed cache (patterns, zone names, source texts)
	// before the tasks meet
	sc.ColdFirst = cold || r.chance(0.5)
	var generic []string
	if r.chance(0.5) {
		generic = []string{genericSrcs[r.intn(len(genericSrcs))], genericSrcs[r.intn(len(genericSrcs))]}
	}
	for t := 0; t < k; t++ {
		var ops []Op
		n := 1 + r.intn(6)
		var myEngines []int
		var myCalls []int
		callEnv := map[int]string{}
		for len(ops) < n {
			i := len(ops)
			switch c := r.intn(10); {
			case c < 3 && len(sc.Pre) > 0: // F1: invoke a shared callable
				ci := r.intn(len(sc.Pre))
				ops = append(ops, Op{K: "invoke", C: ci, CS: true, Env: invokeEnv(r, sc.Pre[ci].Prog.Env), EnvSh: r.chance(0.5)})
			case c < 5 && len(sc.Shared) > 0: // F3: compile on a shared (warmed) engine
				e := r.intn(len(sc.Shared))
				p := pickProg(r, sc.Shared[e].UserFuns)
				if len(generic) > 0 && r.chance(0.4) {
					// several tasks compile the SAME generic source on the shared engine under different typings
					p = Prog{generic[r.intn(len(generic))], genericEnvs[r.intn(len(genericEnvs))], false, true}
				}
				ops = append(ops, Op{K: "compile", E: e, ES: true, Prog: &p})
				myCalls = append(myCalls, i)
				callEnv[i] = p.Env
			case c < 7 || len(myEngines) == 0 && c < 9: // F2: private engine
				if len(myEngines) == 0 || r.chance(0.3) {
					spec := EngineSpec{pickBackend(r), r.chance(0.5), 0, false}
					ops = append(ops, Op{K: "engine", Spec: &spec})
					myEngines = append(myEngines, i)
					i++
				}
				e := myEngines[r.intn(len(myEngines))]
				p := pickProg(r, ops[e].Spec.UserFuns)
				ops = append(ops, Op{K: "compile", E: e, Prog: &p})
				myCalls = append(myCalls, i)
				callEnv[i] = p.Env
			case c < 9 && len(myCalls) > 0:
				ci := myCalls[r.intn(len(myCalls))]
				ops = append(ops, Op{K: "invoke", C: ci, Env: invokeEnv(r, callEnv[ci]), EnvSh: r.chance(0.3)})
			default:
				p := pickProg(r, false)
				kind := "eval"
				if r.chance(0.3) && !strings.Contains(p.Src, "\n") {
					kind = "debug"
				}
				ops = append(ops, Op{K: kind, Prog: &p})
			}
		}
		sc.Tasks = append(sc.Tasks, ops)
	}
	sc.Sim = genSimConfig(r)
	return sc
}

func invokeEnv(r *rng, compiled string) string {
	switch c := r.intn(10); {
	case c < 5:
		return compiled
	case c < 8:
		// an environment of the same types: other contents, another carrier, object fields
		// declared in another order
		if st := sameTyped[compiled]; len(st) > 0 {
			return st[r.intn(len(st))]
		}
		return compiled
	}
	return envNames[r.intn(len(envNames))]
}

func genSimConfig(r *rng) simrt.Config {
	c := simrt.Config{Seed: r.u64() | 1, ClockSeam: true, ClockBase: 1700000000}
	switch r.intn(15) {
	case 12, 13, 14:
		// one to three preemptions, each at a yield next to a synchronisation operation, the
		// rest of the run uninterrupted: opens the window between two critical sections
		c.Sched = simrt.SchedPCT
		d := 1 + r.intn(3)
		for i := 0; i < d; i++ {
			c.SyncPoints = append(c.SyncPoints, 1+uint64(r.intn(1<<uint(1+r.intn(9)))))
		}
		sort.Slice(c.SyncPoints, func(i, j int) bool { return c.SyncPoints[i] < c.SyncPoints[j] })
	case 0, 1:
		c.Sched, c.SwitchProb = simrt.SchedRandom, 0.01
	case 2, 3:
		c.Sched, c.SwitchProb = simrt.SchedRandom, 0.05
	case 4:
		c.Sched, c.SwitchProb = simrt.SchedRandom, 0.3
	case 5:
		c.Sched, c.SwitchProb = simrt.SchedRandom, 1.0
	case 6, 7:
		c.Sched = simrt.SchedPCT
	case 8, 9:
		// store-biased: preempt only at read-modify-write splits and at sync / atomic
		// operations (and at the yield following one)
		c.Sched = simrt.SchedStore
	default:
		// synchronisation-biased: only at sync / sync/atomic operations and at stores to
		// package-level or captured variables
		c.Sched = simrt.SchedSync
	}
	// hash-order modes that are a fixed function of the map (sorted / reverse /
	// rotate): the same in the solo and the concurrent runs, so a result that
	// depends on hash order (C13's business) is not mistaken for a concurrency effect
	c.MapMode = r.intn(3)
	c.MapParam = 1 + r.intn(5)
	if r.chance(0.5) {
		c.Knobs = map[string]int{"vm.stackInit": []int{1, 2, 3, 42}[r.intn(4)], "vm.stackGrow": []int{1, 2, 500}[r.intn(3)]}
	}
	return c
}
