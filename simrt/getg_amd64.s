#include "textflag.h"

// func getg() uintptr
TEXT ·getg(SB),NOSPLIT,$0-8
	MOVQ (TLS), AX
	MOVQ AX, ret+0(FP)
	RET
