package main

import (
	"fmt"
	"os"
	"path/filepath"

	yae "github.com/goghcrow/yae"
)

func stdoutPath(wid, batch int) string {
	dir := os.Getenv("VERIF_SCRATCH")
	if dir == "" {
		dir = os.TempDir()
	}
	return filepath.Join(dir, fmt.Sprintf("stdout-%d-%d-%d", os.Getpid(), wid, batch))
}

func tzEnv() string { return os.Getenv("TZ") }

// traceRun appends one line per simulated run to $VERIF_TRACE (determinism self-test):
// everything on the line must be a pure function of (seed, wid, batch, index) and the code.
var traceFile *os.File

func traceRun(i int, hash, steps uint64, extra string) {
	path := os.Getenv("VERIF_TRACE")
	if path == "" {
		return
	}
	if traceFile == nil {
		f, err := os.Create(path)
		if err != nil {
			harnessFatal("trace: %v", err)
		}
		traceFile = f
	}
	fmt.Fprintf(traceFile, "%d %016x %d %016x\n", i, hash, steps, fnv64(extra))
}

// poolMain prints the outcome of every pool program on every back end (debug aid).
func poolMain() {
	rec := &recorder{}
	pool := append([]Prog{}, progPool...)
	pool = append(pool, c13Extra...)
	for _, src := range genericSrcs {
		for _, env := range genericEnvs {
			pool = append(pool, Prog{src, env, false, true})
		}
	}
	for _, src := range genericUserSrcs {
		for _, env := range genericEnvs {
			pool = append(pool, Prog{src, env, true, true})
		}
	}
	for _, p := range pool {
		line := fmt.Sprintf("%-90q %-7s", p.Src, p.Env)
		for _, be := range backends {
			e := buildEngine(EngineSpec{be, true, 0, false}, func() *recorder { return rec })
			res := func() (s string) {
				defer func() {
					if r := recover(); r != nil {
						s = fmt.Sprintf("PANIC(%v)", r)
					}
				}()
				c, err := e.Compile(p.Src, envMakers[p.Env]())
				if err != nil {
					return "CERR(" + clipN(err.Error(), 60) + ")"
				}
				v, err := c(envMakers[p.Env]())
				if err != nil {
					return "ERR(" + clipN(err.Error(), 60) + ")"
				}
				return render(v)
			}()
			line += " | " + clipN(res, 70)
		}
		fmt.Println(line)
	}
	_ = yae.Eval
}

func clipN(s string, n int) string {
	if len(s) > n {
		return s[:n] + "…"
	}
	return s
}
