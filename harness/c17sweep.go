package main

// C17 sweep: besides the PRNG-generated cases, a fixed fraction of every batch walks a
// systematic list of small type pairs, so that the thorough tier covers EVERY pair of the
// small universe below (and the quick tier a seed-dependent slice of it).  This is the
// "exhaustively up to a depth / width bound" half of the property's quantifier; the
// generator in c17.go is the "randomly beyond" half.  Every sweep case still runs under the
// fault-free and the injected-GC schedule like any other case.

import (
	"os"
	"strconv"
	"sync"

	"github.com/goghcrow/yae/simrt"
)

var (
	sweepOnce sync.Once
	sweepU    []*T17 // the universe
)

func sweepAtoms() []*T17 {
	return []*T17{{K: "num"}, {K: "str"}, {K: "bool"}, {K: "var", N: "a1"}, {K: "var", N: "a11"}}
}

// sweepUniverse: all types of depth <= 1 over the atoms (width <= 2), plus the depth-2
// types with a single nested constructor.
func sweepUniverse() []*T17 {
	sweepOnce.Do(func() {
		at := sweepAtoms()
		var d1 []*T17 // depth-1, usable anywhere
		add := func(t *T17) { d1 = append(d1, t) }
		for _, a := range at {
			add(&T17{K: "list", A: []*T17{a}})
			add(&T17{K: "maybe", A: []*T17{a}})
			add(&T17{K: "obj", F: []string{"x"}, A: []*T17{a}})
			for _, k := range []*T17{{K: "num"}, {K: "str"}, {K: "var", N: "a1"}, {K: "var", N: "a11"}} {
				add(&T17{K: "map", A: []*T17{k, a}})
			}
			for _, b := range at {
				add(&T17{K: "obj", F: []string{"x", "y"}, A: []*T17{a, b}})
				add(&T17{K: "fun", N: "f", A: []*T17{a, b}})
			}
		}
		// reordered and renamed objects: fields are compared by name
		add(&T17{K: "obj", F: []string{"y", "x"}, A: []*T17{{K: "num"}, {K: "str"}}})
		add(&T17{K: "obj", F: []string{"y", "x"}, A: []*T17{{K: "var", N: "a1"}, {K: "num"}}})
		add(&T17{K: "obj", F: []string{"x", "z"}, A: []*T17{{K: "num"}, {K: "str"}}})
		add(&T17{K: "obj", F: []string{"y"}, A: []*T17{{K: "num"}}})
		add(&T17{K: "obj"})
		// functions without parameters, alone and nested
		for _, a := range at {
			add(&T17{K: "fun", N: "f", A: []*T17{a}})
			add(&T17{K: "list", A: []*T17{{K: "fun", N: "f", A: []*T17{a}}}})
		}
		add(&T17{K: "fun", N: "f", A: []*T17{{K: "list", A: []*T17{{K: "var", N: "a1"}}}}})
		add(&T17{K: "fun", N: "f", A: []*T17{{K: "list", A: []*T17{{K: "str"}}}}})
		var u []*T17
		u = append(u, at...)
		u = append(u, d1...)
		// two-parameter functions over a reduced atom set
		small := []*T17{{K: "num"}, {K: "str"}, {K: "var", N: "a1"}, {K: "var", N: "a11"}}
		for _, a := range small {
			for _, b := range small {
				for _, c := range small {
					u = append(u, &T17{K: "fun", N: "f", A: []*T17{a, b, c}})
				}
			}
		}
		// depth 2: one constructor around a depth-1 type over a reduced set
		var inner []*T17
		for _, a := range small {
			inner = append(inner,
				&T17{K: "list", A: []*T17{a}},
				&T17{K: "maybe", A: []*T17{a}},
				&T17{K: "obj", F: []string{"x"}, A: []*T17{a}},
				&T17{K: "map", A: []*T17{{K: "str"}, a}})
		}
		for _, in := range inner {
			u = append(u,
				&T17{K: "list", A: []*T17{in}},
				&T17{K: "maybe", A: []*T17{in}},
				&T17{K: "obj", F: []string{"x"}, A: []*T17{in}},
				&T17{K: "map", A: []*T17{{K: "num"}, in}},
				&T17{K: "fun", N: "f", A: []*T17{in, {K: "var", N: "a1"}}})
		}
		// argument tuples (outermost only)
		for _, a := range small {
			for _, b := range small {
				u = append(u, &T17{K: "tuple", A: []*T17{a, b}})
			}
			u = append(u, &T17{K: "tuple", A: []*T17{a}})
			u = append(u, &T17{K: "tuple", A: []*T17{{K: "list", A: []*T17{a}}, a}})
		}
		sweepU = u
	})
	return sweepU
}

const sweepVariants = 3 // equals | unify-or-match | the same with the arguments swapped

// sweepTotal: number of sweep cases in one full pass.
func sweepTotal() uint64 {
	n := uint64(len(sweepUniverse()))
	return n * n * sweepVariants
}

// sweepStride is coprime to sweepTotal (checked at first use) so that consecutive sweep
// indices are spread over the whole pair space.
func sweepPos(g uint64, seed uint64) uint64 {
	n := sweepTotal()
	stride := uint64(1_000_003)
	for gcd(stride, n) != 1 {
		stride += 2
	}
	return (seed%n*7919 + g%n*stride) % n
}

func gcd(a, b uint64) uint64 {
	for b != 0 {
		a, b = b, a%b
	}
	return a
}

func nWorkers() int {
	if n, err := strconv.Atoi(os.Getenv("VERIF_NWORKERS")); err == nil && n > 0 {
		return n
	}
	return 16
}

// sweepEvery: every sweepEvery-th case of a batch is a sweep case.
const sweepEvery = 3

// sweepIndex: the global sweep counter of case i of (wid, batch); ok=false for ordinary cases.
func sweepIndex(wid, batch, i, nw, bsz int) (uint64, bool) {
	if i%sweepEvery != sweepEvery-1 {
		return 0, false
	}
	per := bsz / sweepEvery
	return uint64((batch*nw+wid)*per + i/sweepEvery), true
}

func sweepCase17(pos uint64, r *rng) *Case17 {
	u := sweepUniverse()
	n := uint64(len(u))
	variant := pos % sweepVariants
	pair := pos / sweepVariants
	x, y := u[pair/n].clone(), u[pair%n].clone()
	c := &Case17{Share: r.chance(0.5), GC: []string{"sparse", "dense", "none"}[r.intn(3)], Sweep: true}
	tupleMismatch := (x.K == "tuple") != (y.K == "tuple")
	switch {
	case variant == 0 || tupleMismatch:
		// tuples never meet non-tuples in the checker; Equals is total all the same
		c.Mode = "equals"
		c.X, c.Y = x, y
		c.Z = permuteFields(y, r)
	default:
		xv, yv := x.hasVar(), y.hasVar()
		switch {
		case !yv:
			c.Mode = "match"
			c.X, c.Y = x, y
			c.Flip = variant == 2
		case !xv:
			c.Mode = "match"
			c.X, c.Y = y, x
			c.Flip = variant == 1
		default:
			c.Mode = "unify"
			c.X, c.Y = x, y
			if variant == 2 {
				c.X, c.Y = y, x
			}
		}
	}
	fixKeys(c.X)
	fixKeys(c.Y)
	fixKeys(c.Z)
	if c.Share {
		g := &gen17{r: r}
		g.markShared(c.X)
		g.markShared(c.Y)
	}
	c.Sim = simrt.Config{Seed: r.u64() | 1, MaxSteps: 400_000, GCAlloc: []int{0, 0, 8}[r.intn(3)]}
	return c
}

// case17For derives case i of (seed, wid, batch): the one place Batch, GenCase and the
// prefix replay go through.
func case17For(seed uint64, wid, batch, i, nw int) *Case17 {
	r := newRng(seed, uint64(wid), uint64(batch), uint64(i), 17)
	if g, ok := sweepIndex(wid, batch, i, nw, c17{}.BatchSize("")); ok {
		return sweepCase17(sweepPos(g, seed), r)
	}
	return genCase17(r)
}
