// Package simrt is the deterministic-simulation runtime that the instrumented
// copy of goghcrow/yae is linked against. The instrumenter (/verif/instrument)
// inserts calls to Yield / YieldW before every statement, routes map iteration,
// reflect.MapKeys, time.Now and sync.Mutex.Lock through the seams below, and the
// harness drives everything through Run.
//
// With no simulation active every seam is inert: Yield returns immediately,
// MapKeys returns keys in a canonical sorted order, Now is the wall clock, Lock is
// the real lock. That is the configuration the repository's own test-suite is run
// against in the fidelity check.
//
// Exactly one simulated task runs at any moment ("holds the turn"); all scheduler
// state is touched only by the turn holder (or by the controller while no task
// runs) from //go:norace functions, and the hand-off between goroutines is
// bracketed by runtime.RaceDisable/RaceEnable so that it creates no
// happens-before edge: the race detector keeps seeing the tasks as unordered.
package simrt

import (
	"fmt"
	"runtime"
	"time"
)

// ---------------------------------------------------------------------------
// configuration and results

// Schedule sources.
const (
	SchedRandom = iota // switch with probability SwitchProb at every yield
	SchedPCT           // switch exactly at the step indices in Points
	SchedStore         // switch only at store-split sites and the yield after one
	SchedReplay        // follow Decisions exactly
	SchedSync          // switch only at synchronisation operations and stores to package-level / captured variables
)

// Map-order modes (all are legal Go behaviours).
const (
	MapSorted  = iota // canonical order, identity permutation
	MapReverse        // reverse canonical
	MapRotate         // rotate by MapParam
	MapShuffle        // fresh PRNG shuffle per iteration
)

type Decision struct {
	Step uint64 `json:"s"`
	Task int    `json:"t"`
}

// Fault is an environment event the simulator fires at a given yield index.
type Fault struct {
	Step uint64 `json:"s"`
	Kind string `json:"k"`           // "gc" | "clock"
	Arg  int64  `json:"a,omitempty"` // clock: seconds to jump (signed)
}

type Config struct {
	Seed       uint64     `json:"seed"`
	Sched      int        `json:"sched"`
	SwitchProb float64    `json:"switch_prob,omitempty"`
	Points     []uint64   `json:"points,omitempty"`
	SyncPoints []uint64   `json:"sync_points,omitempty"` // SchedPCT: preempt at the n-th yield next to a synchronisation operation (ascending)
	Decisions  []Decision `json:"decisions,omitempty"`
	MaxSteps   uint64     `json:"max_steps,omitempty"`
	SoftSteps  uint64     `json:"soft_steps,omitempty"` // after this many steps PCT/Store fall back to random walk
	MapMode    int        `json:"map_mode"`
	MapParam   int        `json:"map_param,omitempty"`
	Faults     []Fault    `json:"faults,omitempty"`
	ClockSeam  bool       `json:"clock_seam"`
	ClockBase  int64      `json:"clock_base,omitempty"` // unix seconds
	GCAlloc    int        `json:"gc_alloc,omitempty"`   // objects allocated after an injected GC
	Knobs      map[string]int `json:"knobs,omitempty"`
}

type Result struct {
	Steps       uint64
	Decisions   []Decision // every context switch that happened (incl. forced ones)
	Preemptions int        // switches that were not forced by blocking / task end
	Deadlock    bool
	StepCap     bool
	DecOverflow bool // more context switches than the decision buffer records: Decisions is truncated (the run itself is complete)
	Hash        uint64 // FNV-1a of the event log
	FaultsFired map[string]int
	MapPerms    int // non-identity permutations applied on >=2 keys
	MapIters    int
	Overlap     map[string]int // probe counters (see Probe)
	LockSpins   int
	SitesSwitched map[uint32]int
	ClockEnd    int64
	TaskPanics  []interface{}
	SyncSeen    uint64   // yields next to a synchronisation operation (what SyncPoints count)
	Spawned     int      // goroutines the code under test started (Go)
	SpawnCap    bool     // more than maxSpawn of them: run aborted
	SpawnPanics []string // panics that escaped such a goroutine (a real process would have died)
}

// ---------------------------------------------------------------------------
// state

const maxRegions = 48
const maxSites = 1 << 16
const maxDecisions = 1 << 18

type task struct {
	id      int
	g       uintptr // identity of the goroutine running the task (getg)
	wake    chan struct{}
	done    bool
	started bool
	blocked bool
	depth   [maxRegions]int // probe regions this task is inside
}

type sim struct {
	active   bool
	cfg      Config
	tasks    []*task
	cur      int
	steps    uint64
	rng      uint64
	hash     uint64
	dec      []Decision
	replayI  int
	pointI   int
	faultI   int
	preempt  int
	deadlock bool
	stepcap  bool
	aborted  bool
	lastKind uint8
	blockedSpin int
	lockSpins int
	firedGC, firedClock, firedKnob int
	mapPerms int
	mapIters int
	overlap  [maxRegions]int
	clock    int64
	clockNs  int64
	doneCh   chan int
	curProbe [maxRegions]int // region -> number of tasks currently inside
	decOverflow bool
	syncSeen uint64
	syncI    int
	spawned  int
	spawnCap bool
	n0       int // tasks the run started with
}

var s sim

// Scheduler state must not live in Go maps or growing slices: the runtime's map
// and growslice routines report to the race detector even when called from
// //go:norace functions, and the tasks touching them are deliberately unordered.
var (
	regionNames [maxRegions]string
	nRegions    int
	siteHits    [maxSites]int32
	decBuf      = make([]Decision, 0, maxDecisions)
	sinkBuf     [256][]byte
)

//go:norace
func regionIdx(name string) int {
	for i := 0; i < nRegions; i++ {
		if regionNames[i] == name {
			return i
		}
	}
	if nRegions < maxRegions {
		regionNames[nRegions] = name
		nRegions++
		return nRegions - 1
	}
	return maxRegions - 1
}

var knobs = map[string]*int{}
var knobDefaults = map[string]int{}

// RegisterKnob is called from init functions the instrumenter appends to files
// whose tuning constants were turned into variables.
func RegisterKnob(name string, p *int) {
	knobs[name] = p
	knobDefaults[name] = *p
}

// Knobs lists the registered tuning knobs (name -> default).
func Knobs() map[string]int {
	m := map[string]int{}
	for k, v := range knobDefaults {
		m[k] = v
	}
	return m
}

type abortT struct{}

func (abortT) Error() string { return "simrt: run aborted" }

// IsAbort reports whether a recovered panic value is the simulator's abort sentinel.
func IsAbort(r interface{}) bool {
	switch v := r.(type) {
	case abortT:
		return true
	case error:
		return v.Error() == "simrt: run aborted"
	case string:
		return v == "simrt: run aborted"
	}
	return false
}

// ---------------------------------------------------------------------------
// PRNG (splitmix64), event hash

//go:norace
func (s *sim) next() uint64 {
	s.rng += 0x9e3779b97f4a7c15
	z := s.rng
	z = (z ^ (z >> 30)) * 0xbf58476d1ce4e5b9
	z = (z ^ (z >> 27)) * 0x94d049bb133111eb
	return z ^ (z >> 31)
}

//go:norace
func (s *sim) intn(n int) int {
	if n <= 1 {
		return 0
	}
	return int(s.next() % uint64(n))
}

//go:norace
func (s *sim) float() float64 { return float64(s.next()>>11) / (1 << 53) }

//go:norace
func (s *sim) mix(vs ...uint64) {
	h := s.hash
	for _, v := range vs {
		for i := 0; i < 8; i++ {
			h ^= v & 0xff
			h *= 1099511628211
			v >>= 8
		}
	}
	s.hash = h
}

// Mix folds a harness event (operation outcome etc.) into the run's event-log hash.
//
//go:norace
func Mix(str string) {
	if !mine() {
		return
	}
	h := s.hash
	for i := 0; i < len(str); i++ {
		h ^= uint64(str[i])
		h *= 1099511628211
	}
	s.hash = h
}

// Splitmix is exported for harness code that needs the same generator.
func Splitmix(x *uint64) uint64 {
	*x += 0x9e3779b97f4a7c15
	z := *x
	z = (z ^ (z >> 30)) * 0xbf58476d1ce4e5b9
	z = (z ^ (z >> 27)) * 0x94d049bb133111eb
	return z ^ (z >> 31)
}

// ---------------------------------------------------------------------------
// yield points

const (
	kStmt  = 0
	kStore = 1
	kLoop  = 2
	kSync  = 3
)

// Yield is inserted before every statement of the instrumented code.
//
//go:norace
func Yield(site uint32) {
	if !mine() {
		return
	}
	s.step(site, kStmt)
}

// YieldW is inserted between the computation of a value and its store into
// non-local memory (read-modify-write splitting).
//
//go:norace
func YieldW(site uint32) {
	if !mine() {
		return
	}
	s.step(site, kStore)
}

// YieldG marks a synchronisation-relevant point: a sync / sync/atomic operation, or
// the store half of a read-modify-write on a package-level or captured variable.
//
//go:norace
func YieldG(site uint32) {
	if !mine() {
		return
	}
	s.step(site, kSync)
}

//go:norace
func (s *sim) step(site uint32, kind uint8) {
	if s.aborted {
		panic(abortT{})
	}
	s.steps++
	if s.cfg.MaxSteps != 0 && s.steps > s.cfg.MaxSteps {
		s.stepcap = true
		s.aborted = true
		panic(abortT{})
	}
	for s.faultI < len(s.cfg.Faults) && s.cfg.Faults[s.faultI].Step <= s.steps {
		s.fire(s.cfg.Faults[s.faultI])
		s.faultI++
	}
	if len(s.tasks) > 1 {
		next := s.choose(kind)
		s.lastKind = kind
		if next != s.cur {
			s.preempt++
			if site < maxSites {
				siteHits[site]++
			}
			s.switchTo(next, false)
		}
	}
}

//go:norace
func (s *sim) fire(f Fault) {
	switch f.Kind {
	case "gc":
		runtime.GC()
		// encourage reuse of just-freed addresses
		n := s.cfg.GCAlloc
		for i := 0; i < n && i < len(sinkBuf); i++ {
			sinkBuf[i] = make([]byte, 8+8*(i%6))
		}
		s.firedGC++
	case "clock":
		s.clock += f.Arg
		s.firedClock++
	}
	s.mix(0xfa, s.steps, uint64(len(f.Kind)), uint64(f.Arg))
}

// runnable other than cur (not done). Blocked tasks are runnable: they re-try.
//
//go:norace
func (s *sim) others() int {
	n := 0
	for i, t := range s.tasks {
		if i != s.cur && !t.done {
			n++
		}
	}
	return n
}

//go:norace
func (s *sim) pickOther() int {
	n := s.others()
	if n == 0 {
		return s.cur
	}
	k := s.intn(n)
	for i, t := range s.tasks {
		if i != s.cur && !t.done {
			if k == 0 {
				return i
			}
			k--
		}
	}
	return s.cur
}

//go:norace
func (s *sim) choose(kind uint8) int {
	sched := s.cfg.Sched
	if sched != SchedPCT && (kind == kSync || s.lastKind == kSync) {
		s.syncSeen++ // counted under every schedule (SchedPCT counts below, where it also acts on it)
	}
	if sched != SchedReplay && sched != SchedRandom && s.cfg.SoftSteps != 0 && s.steps > s.cfg.SoftSteps {
		// bounded fairness: a task spinning on a condition another task must
		// establish is eventually descheduled
		if s.float() < 0.05 {
			return s.pickOther()
		}
		return s.cur
	}
	switch sched {
	case SchedReplay:
		if s.replayI < len(s.cfg.Decisions) && s.cfg.Decisions[s.replayI].Step == s.steps {
			t := s.cfg.Decisions[s.replayI].Task
			s.replayI++
			if t >= 0 && t < len(s.tasks) && !s.tasks[t].done {
				return t
			}
		}
		return s.cur
	case SchedRandom:
		if s.float() < s.cfg.SwitchProb {
			return s.pickOther()
		}
		return s.cur
	case SchedPCT:
		if s.pointI < len(s.cfg.Points) && s.cfg.Points[s.pointI] <= s.steps {
			s.pointI++
			return s.pickOther()
		}
		// sync points: the n-th yield next to a synchronisation operation (right before or
		// right after it). A few such preemptions, the rest of the run uninterrupted: the
		// schedule that opens the window between two critical sections of one task and
		// lets another task run through it
		if kind == kSync || s.lastKind == kSync {
			s.syncSeen++
			if s.syncI < len(s.cfg.SyncPoints) && s.cfg.SyncPoints[s.syncI] <= s.syncSeen {
				s.syncI++
				return s.pickOther()
			}
		}
		return s.cur
	case SchedStore:
		if kind == kStore || kind == kSync || s.lastKind == kStore || s.lastKind == kSync {
			if s.float() < 0.5 {
				return s.pickOther()
			}
		}
		return s.cur
	case SchedSync:
		if kind == kSync || s.lastKind == kSync {
			if s.float() < 0.5 {
				return s.pickOther()
			}
		}
		return s.cur
	}
	return s.cur
}

//go:norace
func (s *sim) record(d Decision) {
	if len(s.dec) < maxDecisions {
		s.dec = append(s.dec, d) // never grows: capacity is maxDecisions
	} else {
		s.decOverflow = true
	}
}

//go:norace
func (s *sim) switchTo(next int, forced bool) {
	me := s.tasks[s.cur]
	s.record(Decision{s.steps, next})
	f := uint64(0)
	if forced {
		f = 1
	}
	s.mix(0x5c, s.steps, uint64(s.cur), uint64(next), f)
	s.cur = next
	raceDisable()
	s.tasks[next].wake <- struct{}{}
	<-me.wake
	raceEnable()
	if s.aborted {
		panic(abortT{})
	}
}

// yieldBlocked is called by a task that cannot proceed (lock held by a parked
// task). It must hand the turn to somebody else.
//
//go:norace
func (s *sim) yieldBlocked() {
	if s.aborted {
		panic(abortT{})
	}
	s.steps++
	s.lockSpins++
	s.blockedSpin++
	if s.others() == 0 || s.blockedSpin > 20000 ||
		(s.cfg.MaxSteps != 0 && s.steps > s.cfg.MaxSteps) {
		s.deadlock = true
		s.aborted = true
		panic(abortT{})
	}
	var next int
	if s.cfg.Sched == SchedReplay && s.replayI < len(s.cfg.Decisions) && s.cfg.Decisions[s.replayI].Step == s.steps {
		next = s.cfg.Decisions[s.replayI].Task
		s.replayI++
		if next < 0 || next >= len(s.tasks) || s.tasks[next].done || next == s.cur {
			next = s.pickOther()
		}
	} else {
		next = s.pickOther()
	}
	s.tasks[s.cur].blocked = true
	s.switchTo(next, true)
	s.tasks[s.cur].blocked = false
}

// ---------------------------------------------------------------------------
// blocking primitives

// Lock replaces mu.Lock() / mu.RLock(): try is mu.TryLock (or TryRLock), lock is
// mu.Lock. The real mutex is still taken, so the race detector sees the lock's
// happens-before edge; a contended lock yields instead of blocking the turn holder.
func Lock(try func() bool, lock func()) {
	if !multi() {
		lock()
		return
	}
	for !try() {
		if noOthers() && waitForeign(try) {
			break
		}
		s.yieldBlocked()
	}
	progress()
}

//go:norace
func noOthers() bool { return s.others() == 0 }

// waitForeign: no other task can be holding the lock, so its holder is a goroutine simrt
// does not schedule (a finalizer, say), which runs in real time: give it a moment before
// the caller declares a deadlock.
func waitForeign(try func() bool) bool {
	for i := 0; i < 400; i++ {
		runtime.Gosched()
		time.Sleep(50 * time.Microsecond)
		if try() {
			return true
		}
	}
	return false
}

//go:norace
func multi() bool { return s.active && len(s.tasks) > 1 && getg() == s.tasks[s.cur].g }

// mine: a run is active and the caller is the simulated task holding the turn. Goroutines
// simrt does not schedule (finalizers, runtime timers, goroutines of uninstrumented
// packages) also run instrumented code; for them every seam is the plain operation.
//
//go:norace
func mine() bool { return s.active && getg() == s.tasks[s.cur].g }

//go:norace
func setG(t *task) { t.g = getg() }

//go:norace
func progress() { s.blockedSpin = 0 }

type onceState struct{ running, done bool }

type onceSlot struct {
	key interface{}
	st  onceState
}

var onces [256]onceSlot
var nOnces int

// OnceDo replaces once.Do(f) for a *sync.Once (passed as its Do method value's
// receiver identity key).
func OnceDo(key interface{}, do func(func()), f func()) {
	if !multi() {
		do(f)
		return
	}
	for {
		st := onceGet(key)
		if st.done {
			break
		}
		if st.running {
			s.yieldBlocked()
			continue
		}
		onceSet(st, true, false)
		do(f)
		onceSet(st, false, true)
		progress()
		return
	}
	do(f) // returns at once; keeps the happens-before edge of sync.Once
}

//go:norace
func onceGet(key interface{}) *onceState {
	for i := 0; i < nOnces; i++ {
		if onces[i].key == key {
			return &onces[i].st
		}
	}
	if nOnces < len(onces) {
		onces[nOnces].key = key
		nOnces++
		return &onces[nOnces-1].st
	}
	return &onces[len(onces)-1].st
}

//go:norace
func onceSet(st *onceState, running, done bool) { st.running, st.done = running, done }

// WaitGroup shadow counters: wg.Add / wg.Done / wg.Wait in instrumented code go
// through these so that Wait can yield instead of blocking the turn holder.
type wgSlot struct {
	key interface{}
	n   int
}

var wgs [256]wgSlot
var nWgs int

//go:norace
func wgGet(key interface{}) *wgSlot {
	for i := 0; i < nWgs; i++ {
		if wgs[i].key == key {
			return &wgs[i]
		}
	}
	if nWgs < len(wgs) {
		wgs[nWgs].key = key
		nWgs++
		return &wgs[nWgs-1]
	}
	// table full: recycle slots whose counter is back to zero
	for i := range wgs {
		if wgs[i].n == 0 {
			wgs[i].key = key
			return &wgs[i]
		}
	}
	return &wgs[len(wgs)-1]
}

//go:norace
func wgDelta(key interface{}, d int) { wgGet(key).n += d }

//go:norace
func wgZero(key interface{}) bool { return wgGet(key).n <= 0 }

// WGAdd replaces wg.Add(n); key is the *sync.WaitGroup.
func WGAdd(key interface{}, add func(int), n int) {
	if Active() { // also with a single task: it may start goroutines (Go) later
		wgDelta(key, n)
	}
	add(n)
}

// WGDone replaces wg.Done().
func WGDone(key interface{}, done func()) {
	if Active() {
		wgDelta(key, -1)
	}
	done()
}

// WGWait replaces wg.Wait(): yields while the shadow counter is positive, then
// performs the real Wait (returns at once, keeps the happens-before edge).
func WGWait(key interface{}, wait func()) {
	if mine() {
		for !wgZero(key) {
			s.yieldBlocked()
		}
		progress()
	}
	wait()
}

// ---------------------------------------------------------------------------
// clock seam

//go:norace
func clockOn() (bool, int64, int64) {
	if mine() && s.cfg.ClockSeam {
		s.clockNs += 1000 // strictly monotone within a second
		return true, s.clock, s.clockNs % 1e9
	}
	return false, 0, 0
}

// Now replaces time.Now.
func Now() time.Time {
	if on, sec, ns := clockOn(); on {
		return time.Unix(sec, ns)
	}
	return time.Now()
}

func Since(t time.Time) time.Duration { return Now().Sub(t) }
func Until(t time.Time) time.Duration { return t.Sub(Now()) }

// Sleep replaces time.Sleep: advances the simulated clock and yields.
func Sleep(d time.Duration) {
	if !advance(d) {
		time.Sleep(d)
		return
	}
	if multi() {
		s.yieldSleep()
	}
}

//go:norace
func advance(d time.Duration) bool {
	if mine() && s.cfg.ClockSeam {
		s.clock += int64(d / time.Second)
		return true
	}
	return false
}

//go:norace
func (s *sim) yieldSleep() {
	if s.others() > 0 {
		s.steps++
		s.switchTo(s.pickOther(), true)
	}
}

// ---------------------------------------------------------------------------
// probes: rare-condition counters ("two tasks inside region X at once")

// Enter / Leave bracket a named region in *harness* code or are inserted by
// the instrumenter around functions listed in its probe table.
//
//go:norace
func Enter(region string) {
	if !mine() {
		return
	}
	t := s.tasks[s.cur]
	r := regionIdx(region)
	if t.depth[r] == 0 {
		s.curProbe[r]++
		if s.curProbe[r] >= 2 {
			s.overlap[r]++
		}
	}
	t.depth[r]++
}

//go:norace
func Leave(region string) {
	if !mine() {
		return
	}
	t := s.tasks[s.cur]
	r := regionIdx(region)
	if t.depth[r] == 0 {
		return
	}
	t.depth[r]--
	if t.depth[r] == 0 {
		s.curProbe[r]--
	}
}

// Count bumps a plain probe counter.
//
//go:norace
func Count(name string) {
	if !mine() {
		return
	}
	s.overlap[regionIdx(name)]++
}

// ---------------------------------------------------------------------------
// Run

// Active reports whether a simulation is in progress.
//
//go:norace
func Active() bool { return s.active }

// Steps returns the number of yields executed so far in the current run.
//
//go:norace
func Steps() uint64 { return s.steps }

// CurTask returns the index of the task holding the turn.
//
//go:norace
func CurTask() int { return s.cur }

//go:norace
func (s *sim) reset(cfg Config, n int) {
	*s = sim{}
	s.cfg = cfg
	s.n0 = n
	s.rng = cfg.Seed
	s.hash = 14695981039346656037
	s.dec = decBuf[:0]
	for i := range siteHits {
		siteHits[i] = 0
	}
	s.clock = cfg.ClockBase
	for k, p := range knobs {
		*p = knobDefaults[k]
	}
	for k, v := range cfg.Knobs {
		if p, ok := knobs[k]; ok {
			*p = v
			s.firedKnob++
		}
	}
	s.tasks = make([]*task, n, n+maxSpawn) // Go() appends within the capacity: no growslice
	for i := range s.tasks {
		s.tasks[i] = &task{id: i, wake: make(chan struct{}, 1)}
	}
	s.doneCh = make(chan int, n+maxSpawn+1)
	for i := range spawnPanics {
		spawnPanics[i] = nil
	}
}

// ---------------------------------------------------------------------------
// goroutines started by the code under test

// maxSpawn bounds the tasks one run may start with Go.
const maxSpawn = 64

var spawnPanics [maxSpawn]interface{}

//go:norace
func (s *sim) spawn() *task {
	if len(s.tasks) >= cap(s.tasks) {
		return nil
	}
	t := &task{id: len(s.tasks), wake: make(chan struct{}, 1)}
	s.tasks = append(s.tasks, t)
	s.spawned++
	s.mix(0x60, s.steps, uint64(t.id))
	return t
}

//go:norace
func (s *sim) nTasks() int { return len(s.tasks) }

//go:norace
func setSpawnPanic(id, n0 int, r interface{}) {
	if i := id - n0; i >= 0 && i < maxSpawn {
		spawnPanics[i] = r
	}
}

// Go replaces a go statement of the code under test: the new goroutine is a real one (so
// the race detector sees the happens-before edge of its creation), scheduled like every
// other simulated task. Outside a simulated run it is a plain go statement.
func Go(f func()) {
	if !mine() {
		go f()
		return
	}
	t := s.spawn()
	if t == nil {
		abortRun()
	}
	n0 := initialTasks()
	doneCh := s.doneCh
	go func() {
		setG(t)
		waitTurn(t)
		func() {
			defer func() {
				if r := recover(); r != nil {
					// in a real program an unrecovered panic of a goroutine kills the
					// process; here it is recorded (Result.SpawnPanics) and the task ends
					setSpawnPanic(t.id, n0, r)
				}
			}()
			f()
		}()
		s.finish(t.id)
		doneCh <- t.id
	}()
	s.step(0, kSync) // a scheduling point: the child may run first
}

//go:norace
func initialTasks() int { return s.n0 }

//go:norace
func abortRun() {
	s.spawnCap = true
	s.aborted = true
	panic(abortT{})
}

// result is called by the controller after every task has finished.
//
//go:norace
func (s *sim) result() Result {
	r := Result{
		Steps: s.steps, Decisions: append([]Decision(nil), s.dec...), Preemptions: s.preempt,
		Deadlock: s.deadlock, StepCap: s.stepcap, DecOverflow: s.decOverflow, Hash: s.hash,
		FaultsFired: map[string]int{"gc": s.firedGC, "clock": s.firedClock, "knob": s.firedKnob},
		MapPerms: s.mapPerms, MapIters: s.mapIters,
		Overlap: map[string]int{}, LockSpins: s.lockSpins, SitesSwitched: map[uint32]int{},
		ClockEnd: s.clock, Spawned: s.spawned, SpawnCap: s.spawnCap, SyncSeen: s.syncSeen,
	}
	for i := 0; i < s.spawned && i < maxSpawn; i++ {
		if spawnPanics[i] != nil && !IsAbort(spawnPanics[i]) {
			r.SpawnPanics = append(r.SpawnPanics, fmt.Sprint(spawnPanics[i]))
		}
	}
	for i := 0; i < nRegions; i++ {
		if s.overlap[i] != 0 {
			r.Overlap[regionNames[i]] = s.overlap[i]
		}
	}
	for i, h := range siteHits {
		if h != 0 {
			r.SitesSwitched[uint32(i)] = int(h)
		}
	}
	return r
}

//go:norace
func setActive(b bool) { s.active = b }

//go:norace
func (s *sim) first() int {
	if s.cfg.Sched == SchedReplay && s.replayI < len(s.cfg.Decisions) && s.cfg.Decisions[s.replayI].Step == 0 {
		t := s.cfg.Decisions[s.replayI].Task
		s.replayI++
		if t >= 0 && t < len(s.tasks) {
			return t
		}
	}
	return s.intn(len(s.tasks))
}

//go:norace
func (s *sim) begin(first int) {
	s.cur = first
	s.record(Decision{0, first})
	s.mix(0x5c, 0, uint64(first))
}

// finish is called by a task whose body returned: pass the turn on.
//
//go:norace
func (s *sim) finish(id int) {
	t := s.tasks[id]
	t.done = true
	for r := 0; r < nRegions; r++ {
		if t.depth[r] > 0 {
			s.curProbe[r]--
		}
	}
	if s.others() == 0 {
		return
	}
	s.steps++
	next := -1
	if s.cfg.Sched == SchedReplay && s.replayI < len(s.cfg.Decisions) && s.cfg.Decisions[s.replayI].Step == s.steps {
		c := s.cfg.Decisions[s.replayI].Task
		s.replayI++
		if c >= 0 && c < len(s.tasks) && !s.tasks[c].done {
			next = c
		}
	}
	if next < 0 {
		next = s.pickOther()
	}
	s.record(Decision{s.steps, next})
	s.mix(0x5c, s.steps, uint64(id), uint64(next), 2)
	s.cur = next
	raceDisable()
	s.tasks[next].wake <- struct{}{}
	raceEnable()
}

//go:norace
func waitTurn(t *task) {
	raceDisable()
	<-t.wake
	raceEnable()
}

//go:norace
func kick(t *task) {
	raceDisable()
	t.wake <- struct{}{}
	raceEnable()
}

// Run executes the bodies as simulated tasks under cfg and returns what happened.
// With a single body it runs inline in the caller's goroutine (yields are then
// only step counters and fault points).
//
// A body must recover its own panics per operation; a panic that escapes a body
// is recorded in Result.TaskPanics and the task is treated as finished.
func Run(cfg Config, bodies ...func()) Result {
	if Active() {
		panic("simrt: nested Run")
	}
	n := len(bodies)
	s.reset(cfg, n)
	panics := make([]interface{}, n)
	if n == 1 {
		setG(s.tasks[0])
		setActive(true)
		func() {
			defer func() {
				if r := recover(); r != nil {
					panics[0] = r
				}
			}()
			bodies[0]()
		}()
		if s.nTasks() > 1 {
			// the body started goroutines: let them run to completion
			s.finish(0)
			for got := 0; got < s.nTasks()-1; got++ {
				<-s.doneCh
			}
		}
		setActive(false)
		r := s.result()
		r.TaskPanics = panics
		return r
	}
	doneCh := s.doneCh
	tasks := s.tasks
	for i := 0; i < n; i++ {
		i := i
		go func() {
			setG(tasks[i])
			waitTurn(tasks[i])
			func() {
				defer func() {
					if r := recover(); r != nil {
						panics[i] = r
					}
				}()
				bodies[i]()
			}()
			s.finish(i)
			doneCh <- i // ordinary synchronisation: task end happens-before controller
		}()
	}
	first := s.first()
	s.begin(first)
	setActive(true)
	kick(tasks[first])
	for got := 0; got < s.nTasks(); got++ {
		<-doneCh
	}
	setActive(false)
	r := s.result()
	r.TaskPanics = panics
	return r
}

func (d Decision) String() string { return fmt.Sprintf("%d:%d", d.Step, d.Task) }
