package main

import (
	"encoding/json"
	"fmt"
	"runtime"
	"sort"
	"strings"
	"time"

	"github.com/goghcrow/yae/parser/ast"
	"github.com/goghcrow/yae/parser/pos"
	"github.com/goghcrow/yae/simrt"
	"github.com/goghcrow/yae/types"
)

// ---------------------------------------------------------------------------
// C17: types.Unify / types.Equals on constructed types, checked against algebraic
// laws and a reference matcher, each call executed under several injected GC
// schedules (the implementation keys its visited sets by raw addresses, so for a
// FIXED input the outcome can depend on when the collector runs).

type T17 struct {
	K     string   `json:"k"` // num str bool time var bot top list map obj fun maybe tuple
	N     string   `json:"n,omitempty"`
	A     []*T17   `json:"a,omitempty"` // list: el; map: key,val; maybe: el; obj: field types; fun: params..., ret; tuple: members
	F     []string `json:"f,omitempty"` // obj field names, parallel to A
	Share int      `json:"share,omitempty"` // nodes with the same non-zero id are built as ONE *types.Type
}

func (t *T17) clone() *T17 {
	if t == nil {
		return nil
	}
	n := &T17{K: t.K, N: t.N, Share: t.Share, F: append([]string(nil), t.F...)}
	for _, a := range t.A {
		n.A = append(n.A, a.clone())
	}
	return n
}

// canon: structural identity (object fields by name, function names ignored).
func (t *T17) canon() string {
	switch t.K {
	case "num", "str", "bool", "time", "bot", "top":
		return t.K
	case "var":
		return "'" + t.N
	case "obj":
		xs := make([]string, len(t.A))
		for i := range t.A {
			xs[i] = t.F[i] + ":" + t.A[i].canon()
		}
		sort.Strings(xs)
		return "{" + strings.Join(xs, ",") + "}"
	default:
		xs := make([]string, len(t.A))
		for i := range t.A {
			xs[i] = t.A[i].canon()
		}
		return t.K + "(" + strings.Join(xs, ",") + ")"
	}
}

func (t *T17) vars(into map[string]bool) {
	if t.K == "var" {
		into[t.N] = true
	}
	for _, a := range t.A {
		a.vars(into)
	}
}

func (t *T17) hasVar() bool {
	m := map[string]bool{}
	t.vars(m)
	return len(m) > 0
}

func (t *T17) has(kind string) bool {
	if t.K == kind {
		return true
	}
	for _, a := range t.A {
		if a.has(kind) {
			return true
		}
	}
	return false
}

func (t *T17) composite() bool {
	switch t.K {
	case "list", "map", "obj", "fun", "maybe", "tuple":
		return true
	}
	return false
}

// build constructs the yae type; shared maps Share ids to already built pointers.
func (t *T17) build(shared map[int]*types.Type, share bool) *types.Type {
	if share && t.Share != 0 {
		if p, ok := shared[t.Share]; ok {
			return p
		}
	}
	var out *types.Type
	switch t.K {
	case "num":
		out = types.Num
	case "str":
		out = types.Str
	case "bool":
		out = types.Bool
	case "time":
		out = types.Time
	case "bot":
		out = types.Bottom
	case "top":
		out = types.Top
	case "var":
		tv := types.TypeVariable{Type: types.Type{Kind: types.KTyVar}, Name: t.N}
		out = &tv.Type
	case "list":
		out = types.List(t.A[0].build(shared, share))
	case "maybe":
		out = types.Maybe(t.A[0].build(shared, share))
	case "map":
		out = types.Map(t.A[0].build(shared, share), t.A[1].build(shared, share))
	case "obj":
		fs := make([]types.Field, len(t.A))
		for i := range t.A {
			fs[i] = types.Field{Name: t.F[i], Val: t.A[i].build(shared, share)}
		}
		out = types.Obj(fs)
	case "fun":
		var ps []*types.Type
		key := ""
		if share && paramSlices != nil {
			// parameter lists of equal structure are ONE Go slice with spare capacity, shared by
			// all function types of the case (two signatures built from one parameter list)
			for _, a := range t.A[:len(t.A)-1] {
				key += a.canon() + ";"
			}
			ps = paramSlices[key]
		}
		if ps == nil {
			ps = make([]*types.Type, len(t.A)-1, len(t.A)+1)
			for i := range ps {
				ps[i] = t.A[i].build(shared, share)
			}
			if share && paramSlices != nil {
				paramSlices[key] = ps
			}
		}
		out = types.Fun(t.N, ps, t.A[len(t.A)-1].build(shared, share))
	case "tuple":
		ps := make([]*types.Type, len(t.A))
		for i := range ps {
			ps[i] = t.A[i].build(shared, share)
		}
		out = types.Tuple(ps)
	default:
		panic("build " + t.K)
	}
	if share && t.Share != 0 {
		shared[t.Share] = out
	}
	return out
}

// fromYae reads a yae type back through exported fields only.
func fromYae(t *types.Type, d int) *T17 {
	if t == nil {
		return &T17{K: "nil"}
	}
	if d > 60 {
		return &T17{K: "deep"}
	}
	switch t.Kind {
	case types.KNum:
		return &T17{K: "num"}
	case types.KStr:
		return &T17{K: "str"}
	case types.KBool:
		return &T17{K: "bool"}
	case types.KTime:
		return &T17{K: "time"}
	case types.KBot:
		return &T17{K: "bot"}
	case types.KTop:
		return &T17{K: "top"}
	case types.KTyVar:
		return &T17{K: "var", N: t.TyVar().Name}
	case types.KList:
		return &T17{K: "list", A: []*T17{fromYae(t.List().El, d+1)}}
	case types.KMaybe:
		return &T17{K: "maybe", A: []*T17{fromYae(t.Maybe().Elem, d+1)}}
	case types.KMap:
		return &T17{K: "map", A: []*T17{fromYae(t.Map().Key, d+1), fromYae(t.Map().Val, d+1)}}
	case types.KObj:
		o := &T17{K: "obj"}
		for _, f := range t.Obj().Fields {
			o.F = append(o.F, f.Name)
			o.A = append(o.A, fromYae(f.Val, d+1))
		}
		return o
	case types.KFun:
		f := &T17{K: "fun", N: t.Fun().Name}
		for _, p := range t.Fun().Param {
			f.A = append(f.A, fromYae(p, d+1))
		}
		f.A = append(f.A, fromYae(t.Fun().Return, d+1))
		return f
	default:
		tp := &T17{K: "tuple"}
		for _, p := range t.Tuple().Val {
			tp.A = append(tp.A, fromYae(p, d+1))
		}
		return tp
	}
}

// --- reference: substitution, matcher, compatibility --------------------------------

func applyOnce(t *T17, s map[string]*T17) *T17 {
	if t.K == "var" {
		if r, ok := s[t.N]; ok {
			return r.clone()
		}
		return t.clone()
	}
	n := &T17{K: t.K, N: t.N, F: append([]string(nil), t.F...)}
	for _, a := range t.A {
		n.A = append(n.A, applyOnce(a, s))
	}
	return n
}

// applyFix applies s until nothing changes; ok=false when it does not settle.
func applyFix(t *T17, s map[string]*T17) (*T17, bool) {
	cur := t
	for i := 0; i < 64; i++ {
		nxt := applyOnce(cur, s)
		if nxt.canon() == cur.canon() {
			return nxt, true
		}
		cur = nxt
		if len(cur.canon()) > 1<<16 {
			return cur, false
		}
	}
	return cur, false
}

// compat: equal, except that bottom on the right and top on the left absorb.
func compat(a, b *T17) bool {
	if b.K == "bot" || a.K == "top" {
		return true
	}
	if a.K != b.K {
		return false
	}
	switch a.K {
	case "var":
		return a.N == b.N
	case "obj":
		if len(a.A) != len(b.A) {
			return false
		}
		for i, n := range a.F {
			j := -1
			for k, m := range b.F {
				if m == n {
					j = k
				}
			}
			if j < 0 || !compat(a.A[i], b.A[j]) {
				return false
			}
		}
		return true
	default:
		if len(a.A) != len(b.A) {
			return false
		}
		for i := range a.A {
			if !compat(a.A[i], b.A[i]) {
				return false
			}
		}
		return true
	}
}

// refMatch: does an instantiation of the pattern's variables make it identical to
// the variable-free, bottom/top-free type g?
func refMatch(p, g *T17, th map[string]string) bool {
	if p.K == "var" {
		c := g.canon()
		if old, ok := th[p.N]; ok {
			return old == c
		}
		th[p.N] = c
		return true
	}
	if g.K == "bot" {
		return true // the empty-container element type on the right is absorbed by any non-variable
	}
	if p.K != g.K {
		return false
	}
	switch p.K {
	case "obj":
		if len(p.A) != len(g.A) {
			return false
		}
		for i, n := range p.F {
			j := -1
			for k, m := range g.F {
				if m == n {
					j = k
				}
			}
			if j < 0 || !refMatch(p.A[i], g.A[j], th) {
				return false
			}
		}
		return true
	default:
		if len(p.A) != len(g.A) {
			return false
		}
		for i := range p.A {
			if !refMatch(p.A[i], g.A[i], th) {
				return false
			}
		}
		return true
	}
}

// --- generation --------------------------------------------------------------------

type gen17 struct {
	r      *rng
	vars   []string
	shareN int
}

var prims17 = []string{"num", "str", "bool", "time"}

func (g *gen17) ty(d int, allowVar, allowBot bool) *T17 {
	r := g.r
	if d <= 0 || r.chance(0.25) {
		switch c := r.intn(10); {
		case c < 3 && allowVar && len(g.vars) > 0:
			return &T17{K: "var", N: g.vars[r.intn(len(g.vars))]}
		case c == 3 && allowBot:
			return &T17{K: "bot"}
		default:
			return &T17{K: prims17[r.intn(4)]}
		}
	}
	w := 1 + r.intn(3)
	switch r.intn(6) {
	case 0:
		return &T17{K: "list", A: []*T17{g.ty(d-1, allowVar, allowBot)}}
	case 1:
		key := &T17{K: prims17[r.intn(4)]}
		if allowVar && len(g.vars) > 0 && r.chance(0.3) {
			key = &T17{K: "var", N: g.vars[r.intn(len(g.vars))]}
		} else if allowBot && r.chance(0.1) {
			key = &T17{K: "bot"}
		}
		return &T17{K: "map", A: []*T17{key, g.ty(d-1, allowVar, allowBot)}}
	case 2, 3:
		o := &T17{K: "obj"}
		names := []string{"a", "b", "c", "d", "e"}
		off := r.intn(5)
		if r.chance(0.08) {
			w = 0 // the empty object
		}
		for i := 0; i < w; i++ {
			o.F = append(o.F, names[(off+i)%5])
			o.A = append(o.A, g.ty(d-1, allowVar, allowBot))
		}
		return o
	case 4:
		f := &T17{K: "fun", N: r.pick([]string{"f", "g"})}
		if r.chance(0.2) {
			w = 0 // a function without parameters
		}
		for i := 0; i < w; i++ {
			f.A = append(f.A, g.ty(d-1, allowVar, allowBot))
		}
		f.A = append(f.A, g.ty(d-1, allowVar, allowBot))
		return f
	default:
		return &T17{K: "maybe", A: []*T17{g.ty(d-1, allowVar, allowBot)}}
	}
}

// top-level: optionally an argument tuple (outermost only, as the checker uses them)
func (g *gen17) top(d int, allowVar, allowBot bool) *T17 {
	if g.r.chance(0.35) {
		t := &T17{K: "tuple"}
		n := 1 + g.r.intn(3)
		for i := 0; i < n; i++ {
			t.A = append(t.A, g.ty(d-1, allowVar, allowBot))
		}
		return t
	}
	return g.ty(d, allowVar, allowBot)
}

// renameVar: a copy of t with every occurrence of variable `from` renamed to `to`.
func renameVar(t *T17, from, to string) *T17 {
	n := t.clone()
	var walk func(x *T17)
	walk = func(x *T17) {
		if x.K == "var" && x.N == from {
			x.N = to
		}
		for _, a := range x.A {
			walk(a)
		}
	}
	walk(n)
	return n
}

// replaceLeaf: a copy of t in which one sub-term (never a map key) is replaced by the
// constant kind k (top / bot); the constant alone if t has no sub-terms.
func replaceLeaf(t *T17, k string, r *rng) *T17 {
	n := t.clone()
	type slot struct {
		parent *T17
		i      int
	}
	var slots []slot
	var walk func(x *T17)
	walk = func(x *T17) {
		for i, a := range x.A {
			if !(x.K == "map" && i == 0) {
				slots = append(slots, slot{x, i})
			}
			walk(a)
		}
	}
	walk(n)
	if len(slots) == 0 {
		return &T17{K: k}
	}
	sl := slots[r.intn(len(slots))]
	sl.parent.A[sl.i] = &T17{K: k}
	return n
}

// markShared picks a composite sub-term that occurs (structurally) more than once and
// gives all its occurrences one Share id; or duplicates a sub-term into a sibling.
func (g *gen17) markShared(t *T17) {
	seen := map[string][]*T17{}
	var walk func(n *T17)
	walk = func(n *T17) {
		if n.composite() && n.K != "tuple" {
			c := n.canon()
			seen[c] = append(seen[c], n)
		}
		for _, a := range n.A {
			walk(a)
		}
	}
	walk(t)
	keys := make([]string, 0, len(seen))
	for k, v := range seen {
		if len(v) > 1 {
			keys = append(keys, k)
		}
	}
	sort.Strings(keys)
	for _, k := range keys {
		g.shareN++
		for _, n := range seen[k] {
			n.Share = g.shareN
		}
	}
}

// dupChild makes two children of some node structurally identical (so that sharing has something to share).
func (g *gen17) dupChild(t *T17) {
	var cands []*T17
	var walk func(n *T17)
	walk = func(n *T17) {
		if (n.K == "obj" || n.K == "fun" || n.K == "tuple") && len(n.A) >= 2 {
			cands = append(cands, n)
		}
		for _, a := range n.A {
			walk(a)
		}
	}
	walk(t)
	if len(cands) == 0 {
		return
	}
	n := cands[g.r.intn(len(cands))]
	i, j := g.r.intn(len(n.A)), g.r.intn(len(n.A))
	if i != j && n.A[i].composite() {
		n.A[j] = n.A[i].clone()
	}
}

func permuteFields(t *T17, r *rng) *T17 {
	n := t.clone()
	var walk func(x *T17)
	walk = func(x *T17) {
		if x.K == "obj" && len(x.A) > 1 {
			k := 1 + r.intn(len(x.A)-1)
			x.A = append(x.A[k:], x.A[:k]...)
			x.F = append(x.F[k:], x.F[:k]...)
		}
		for _, a := range x.A {
			walk(a)
		}
	}
	walk(n)
	return n
}

// mutate17: a small structural change somewhere (may or may not change identity).
func (g *gen17) mutate17(t *T17) *T17 {
	n := t.clone()
	var nodes []*T17
	var walk func(x *T17)
	walk = func(x *T17) {
		nodes = append(nodes, x)
		for _, a := range x.A {
			walk(a)
		}
	}
	walk(n)
	x := nodes[g.r.intn(len(nodes))]
	if g.r.chance(0.3) {
		var funs []*T17
		for _, nd := range nodes {
			if nd.K == "fun" || nd.K == "obj" {
				funs = append(funs, nd)
			}
		}
		if len(funs) > 0 {
			x = funs[g.r.intn(len(funs))]
		}
	}
	switch g.r.intn(6) {
	case 5:
		// ONE occurrence of a variable becomes another variable; without variables, one map key changes its primitive type
		var vs, keys []*T17
		for _, nd := range nodes {
			if nd.K == "var" {
				vs = append(vs, nd)
			}
			if nd.K == "map" && (nd.A[0].K == "num" || nd.A[0].K == "str") {
				keys = append(keys, nd.A[0])
			}
		}
		switch {
		case len(vs) > 0:
			v := vs[g.r.intn(len(vs))]
			for _, nn := range []string{"a1", "a11", "ab1", "zz9"} {
				if nn != v.N {
					v.N = nn
					break
				}
			}
		case len(keys) > 0:
			k := keys[g.r.intn(len(keys))]
			k.K = map[string]string{"num": "str", "str": "num"}[k.K]
		}
	case 0:
		if x.K != "tuple" {
			*x = *g.ty(1, false, false)
		}
	case 1:
		if x.K == "obj" && len(x.F) > 0 {
			x.F[0] = x.F[0] + "x"
		}
	case 2:
		if x.K == "obj" && len(x.A) > 1 {
			x.A, x.F = x.A[1:], x.F[1:]
		}
	case 3:
		switch {
		case x.K == "fun" && len(x.A) > 1 && g.r.chance(0.6):
			// arity change that keeps a common prefix: drop or add the LAST parameter
			ret := x.A[len(x.A)-1]
			if g.r.chance(0.5) {
				x.A = append(x.A[:len(x.A)-2:len(x.A)-2], ret)
			} else {
				x.A = append(x.A[:len(x.A)-1:len(x.A)-1], g.ty(1, false, false), ret)
			}
		case x.K == "tuple" && len(x.A) > 1 && g.r.chance(0.5):
			x.A = x.A[:len(x.A)-1]
		case (x.K == "fun" || x.K == "tuple") && len(x.A) > 1:
			x.A = x.A[1:]
		}
	default:
		for _, p := range nodes {
			if p.K == "num" {
				p.K = "str"
				break
			}
		}
	}
	return n
}

// keyVars: variables that occur as a map key (must stay keyable when instantiated).
func keyVars(t *T17, into map[string]bool) {
	if t.K == "map" && t.A[0].K == "var" {
		into[t.A[0].N] = true
	}
	for _, a := range t.A {
		keyVars(a, into)
	}
}

// fixKeys: map keys must be primitive / variable / bottom (types.Map asserts it).
func fixKeys(t *T17) *T17 {
	if t == nil {
		return nil
	}
	if t.K == "map" {
		switch t.A[0].K {
		case "num", "str", "bool", "time", "var", "bot":
		default:
			t.A[0] = &T17{K: "str"}
		}
	}
	for _, a := range t.A {
		fixKeys(a)
	}
	return t
}

// generalize replaces random sub-terms by variables of the (small, shared) pool.
// Two generalisations of one skeleton with the same pool give pairs that nearly
// unify and alias variables with each other: var~var bindings followed by
// var~container-of-the-other-var, the shapes an occurs check exists for.
func (g *gen17) generalize(t *T17, p float64) *T17 {
	if t.K != "tuple" && len(g.vars) > 0 && g.r.chance(p) {
		return &T17{K: "var", N: g.vars[g.r.intn(len(g.vars))]}
	}
	n := &T17{K: t.K, N: t.N, F: append([]string(nil), t.F...)}
	for _, a := range t.A {
		n.A = append(n.A, g.generalize(a, p))
	}
	return n
}

// instantiate: replace every variable by a ground type (consistent).
func (g *gen17) instantiate(p *T17) *T17 {
	inst := map[string]*T17{}
	vs := map[string]bool{}
	p.vars(vs)
	kv := map[string]bool{}
	keyVars(p, kv)
	names := make([]string, 0, len(vs))
	for v := range vs {
		names = append(names, v)
	}
	sort.Strings(names)
	for _, v := range names {
		if kv[v] {
			inst[v] = &T17{K: prims17[g.r.intn(4)]}
		} else {
			inst[v] = g.ty(1+g.r.intn(2), false, false)
		}
	}
	return applyOnce(p, inst)
}

type Case17 struct {
	Mode  string       `json:"mode"` // equals | unify | match | bottom
	X     *T17         `json:"x"`
	Y     *T17         `json:"y"`
	Z     *T17         `json:"z,omitempty"` // equals: third term for transitivity
	Share bool         `json:"share"`
	Flip  bool         `json:"flip,omitempty"` // match: ground on the left, pattern on the right
	Sweep bool         `json:"sweep,omitempty"` // drawn from the systematic small-pair list (c17sweep.go)
	Aim   string       `json:"aim,omitempty"`   // infer: at run time one type parameter is renamed to the very name ("t<id>" / "s<id>") the checker is about to generate for one of its own fresh variables (a legal name: fresh means fresh for the terms at hand)
	AimJ  int          `json:"aim_j,omitempty"`
	Decoy int          `json:"decoy,omitempty"` // infer: a never-matching overload sharing f's type variables is registered before (1) / after (2) f
	Wide  bool         `json:"wide,omitempty"`  // match: wide-function family under dense GC
	Chain bool         `json:"chain,omitempty"` // unify: alias-chain family
	Cross bool         `json:"cross,omitempty"` // equals: crossing DAG family
	BotG  bool         `json:"bot_g,omitempty"` // match: the variable-free side contains the bottom type somewhere (pattern on the left, no function types: see DESIGN.md, X01)
	GC    string       `json:"gc"`             // none | dense | sparse
	Sim   simrt.Config `json:"sim"`
}

func genCase17(r *rng) *Case17 {
	g := &gen17{r: r}
	nv := r.intn(4)
	// names sharing prefixes / suffixes: identity must be decided by the full name
	g.vars = append(g.vars, []string{"a1", "a11", "ab1"}[:nv]...)
	c := &Case17{Share: r.chance(0.5), GC: []string{"sparse", "sparse", "dense", "none"}[r.intn(4)]}
	d := 1 + r.intn(4)
	nest := false
	switch r.intn(10) {
	case 0, 1, 2:
		c.Mode = "equals"
		c.X = g.top(d, true, true)
		switch r.intn(4) {
		case 0:
			c.Y = permuteFields(c.X, r)
		case 1:
			c.Y = g.mutate17(c.X)
		case 2:
			c.Y = c.X.clone()
		default:
			// crossing: both sides are DAGs over the same two composite sub-terms A and B,
			// shared by pointer within each side, and differ in exactly one position whose
			// two occupants have each been met before (paired with something else):
			//   (A, B, A) vs (A', B', B')
			// a cycle guard that remembers nodes instead of pairs calls them equal
			a := g.ty(1+r.intn(2), false, false)
			if !a.composite() || a.K == "tuple" {
				a = &T17{K: r.pick([]string{"list", "maybe"}), A: []*T17{a}}
			}
			b := g.mutate17(a)
			if b.canon() == a.canon() || !b.composite() || b.K == "tuple" {
				b = &T17{K: "maybe", A: []*T17{a.clone()}}
			}
			if r.chance(0.3) {
				// nested: B contains A
				b = &T17{K: r.pick([]string{"list", "maybe"}), A: []*T17{a.clone()}}
			}
			n := 3 + r.intn(3)
			xs, ys := make([]*T17, n), make([]*T17, n)
			xs[0], xs[1] = a.clone(), b.clone()
			for i := 2; i < n; i++ {
				if r.chance(0.5) {
					xs[i] = a.clone()
				} else {
					xs[i] = b.clone()
				}
			}
			for i := n - 1; i > 0; i-- {
				j := r.intn(i + 1)
				xs[i], xs[j] = xs[j], xs[i]
			}
			for i := range xs {
				ys[i] = xs[i].clone()
			}
			if !r.chance(0.15) { // sometimes no difference at all
				j := r.intn(n)
				if ys[j].canon() == a.canon() {
					ys[j] = b.clone()
				} else {
					ys[j] = a.clone()
				}
			}
			switch r.intn(3) {
			case 0:
				c.X, c.Y = &T17{K: "tuple", A: xs}, &T17{K: "tuple", A: ys}
			case 1:
				names := []string{"p", "q", "r", "s", "t"}[:n]
				c.X = &T17{K: "obj", F: append([]string(nil), names...), A: xs}
				c.Y = permuteFields(&T17{K: "obj", F: append([]string(nil), names...), A: ys}, r)
			default:
				c.X, c.Y = &T17{K: "fun", N: "f", A: xs}, &T17{K: "fun", N: "f", A: ys}
			}
			if r.chance(0.3) {
				w := r.pick([]string{"list", "maybe"})
				c.X, c.Y = &T17{K: w, A: []*T17{c.X}}, &T17{K: w, A: []*T17{c.Y}}
			}
			c.Share = !r.chance(0.1)
			c.Cross = true
		}
		c.Z = permuteFields(c.Y, r)
	case 3, 4, 5, 6:
		c.Mode = "unify"
		c.X = g.top(d, true, r.chance(0.2))
		switch r.intn(10) {
		case 9:
			// alias chains: three variables are aliased to each other position by position
			// (a ~ b, b ~ c) and two of them then meet ground types that are equal or differ
			// in one place; whatever Unify answers, a success must equalise both sides
			vs := []string{"a1", "a11", "ab1"}
			for i := 2; i > 0; i-- {
				j := r.intn(i + 1)
				vs[i], vs[j] = vs[j], vs[i]
			}
			V := func(i int) *T17 { return &T17{K: "var", N: vs[i]} }
			saved := g.vars
			g.vars = nil
			t1 := g.ty(r.intn(3), false, false)
			g.vars = saved
			t2 := t1.clone()
			if r.chance(0.6) {
				t2 = g.mutate17(t1)
			}
			type pr struct{ l, r *T17 }
			ps := []pr{{V(0), V(1)}, {V(1), V(2)}}
			gi, gj := r.intn(3), r.intn(3)
			gs := []pr{{V(gi), t1}, {V(gj), t2}}
			if r.chance(0.3) {
				w := r.pick([]string{"list", "maybe"})
				gs[1] = pr{&T17{K: w, A: []*T17{V(gj)}}, &T17{K: w, A: []*T17{t2}}}
			}
			if r.chance(0.3) {
				ps = append(ps, pr{V(2), V(0)})
			}
			if r.chance(0.5) {
				ps[0], ps[1] = ps[1], ps[0]
			}
			ps = append(ps, gs...)
			if r.chance(0.3) {
				for i := len(ps) - 1; i > 0; i-- {
					j := r.intn(i + 1)
					ps[i], ps[j] = ps[j], ps[i]
				}
			}
			var l, rr []*T17
			for _, p := range ps {
				if r.chance(0.5) {
					p.l, p.r = p.r, p.l
				}
				l, rr = append(l, p.l), append(rr, p.r)
			}
			switch r.intn(3) {
			case 0:
				c.X, c.Y = &T17{K: "tuple", A: l}, &T17{K: "tuple", A: rr}
			case 1:
				names := []string{"p", "q", "r", "s", "t"}[:len(l)]
				c.X = &T17{K: "obj", F: append([]string(nil), names...), A: l}
				c.Y = permuteFields(&T17{K: "obj", F: append([]string(nil), names...), A: rr}, r)
			default:
				// function: the last position is the result
				c.X, c.Y = &T17{K: "fun", N: "f", A: l}, &T17{K: "fun", N: "f", A: rr}
			}
			c.Chain = true
		case 8:
			// occurs twins: one variable twice on one side; on the other side a container around
			// a second variable and that bare variable (in either order), optionally through an
			// alias. No finite unifier exists: whatever succeeds here binds a variable to a type
			// containing itself.
			v1, v2, v3 := "a1", "a11", "ab1"
			V := func(n string) *T17 { return &T17{K: "var", N: n} }
			var wrapped *T17
			switch r.intn(4) {
			case 0:
				wrapped = &T17{K: "list", A: []*T17{V(v2)}}
			case 1:
				wrapped = &T17{K: "maybe", A: []*T17{V(v2)}}
			case 2:
				wrapped = &T17{K: "map", A: []*T17{{K: "str"}, V(v2)}}
			default:
				wrapped = &T17{K: "fun", N: "g", A: []*T17{{K: "num"}, V(v2)}}
			}
			l := []*T17{V(v1), V(v1)}
			rr := []*T17{wrapped, V(v2)}
			if r.chance(0.4) {
				rr[0], rr[1] = rr[1], rr[0]
			}
			if r.chance(0.3) {
				// through an alias: (X, Z, X) ~ (C[Z], Y, Y)
				wrapped.A[len(wrapped.A)-1] = V(v3)
				l = []*T17{V(v1), V(v3), V(v1)}
				rr = []*T17{wrapped, V(v2), V(v2)}
			}
			switch r.intn(3) {
			case 0:
				c.X = &T17{K: "tuple", A: l}
				c.Y = &T17{K: "tuple", A: rr}
			case 1:
				names := []string{"p", "q", "r"}[:len(l)]
				c.X = &T17{K: "obj", F: append([]string(nil), names...), A: l}
				c.Y = permuteFields(&T17{K: "obj", F: append([]string(nil), names...), A: rr}, r)
			default:
				// function: the last position is the result
				c.X = &T17{K: "fun", N: "f", A: l}
				c.Y = &T17{K: "fun", N: "f", A: rr}
			}
			if r.chance(0.5) {
				c.X, c.Y = c.Y, c.X
			}
		case 7:
			// twins: one variable of the pattern faces two copies of a type that differ only
			// in a bottom / top constant inside one of them (a variable stands for ONE type;
			// bottom is absorbed on the right only, top on the left only)
			if len(g.vars) == 0 {
				g.vars = []string{"a1"}
			}
			p := g.ty(1+r.intn(3), false, false)
			q := replaceLeaf(p, r.pick([]string{"bot", "bot", "top"}), r)
			if r.chance(0.5) {
				p, q = q, p
			}
			v := func() *T17 { return &T17{K: "var", N: g.vars[0]} }
			pa, pb := v(), v()
			if r.chance(0.4) {
				w := r.pick([]string{"list", "maybe"})
				p, q = &T17{K: w, A: []*T17{p}}, &T17{K: w, A: []*T17{q}}
				if r.chance(0.5) {
					pa, pb = &T17{K: w, A: []*T17{pa}}, &T17{K: w, A: []*T17{pb}}
				}
			}
			switch r.intn(3) {
			case 0:
				c.X = &T17{K: "tuple", A: []*T17{p, q}}
				c.Y = &T17{K: "tuple", A: []*T17{pa, pb}}
			case 1:
				c.X = &T17{K: "obj", F: []string{"p", "q"}, A: []*T17{p, q}}
				c.Y = &T17{K: "obj", F: []string{"q", "p"}, A: []*T17{pb, pa}}
			default:
				c.X = &T17{K: "fun", N: "f", A: []*T17{p, q}}
				c.Y = &T17{K: "fun", N: "f", A: []*T17{pa, pb}}
			}
			if r.chance(0.5) {
				c.X, c.Y = c.Y, c.X
			}
		case 4, 5, 6:
			if len(g.vars) < 2 {
				g.vars = []string{"a1", "a11"}
			}
			// a skeleton with repeated sub-terms, generalised twice
			sk := g.top(d, false, false)
			if r.chance(0.6) {
				g.dupChild(sk)
				if r.chance(0.5) {
					// wrap one of two equal siblings: (P, P) -> (P, list[P])
					var cands []*T17
					var walk func(n *T17)
					walk = func(n *T17) {
						if (n.K == "tuple" || n.K == "obj" || n.K == "fun") && len(n.A) >= 2 {
							cands = append(cands, n)
						}
						for _, a := range n.A {
							walk(a)
						}
					}
					walk(sk)
					if len(cands) > 0 {
						n := cands[r.intn(len(cands))]
						i := r.intn(len(n.A))
						wrap := []string{"list", "maybe"}[r.intn(2)]
						n.A[i] = &T17{K: wrap, A: []*T17{n.A[(i+1)%len(n.A)].clone()}}
					}
				}
			}
			pg := []float64{0.15, 0.3, 0.5}[r.intn(3)]
			c.X = g.generalize(sk, pg)
			c.Y = g.generalize(sk, pg)
			if r.chance(0.3) {
				c.Y = permuteFields(c.Y, r)
			}
		case 0:
			c.Y = g.top(d, true, r.chance(0.2))
			if c.X.K == "tuple" && c.Y.K != "tuple" || c.X.K != "tuple" && c.Y.K == "tuple" {
				c.Y = g.mutate17(c.X)
			}
		case 1:
			c.Y = g.instantiate(c.X)
		case 2:
			c.Y = g.mutate17(g.instantiate(c.X))
		default:
			c.Y = permuteFields(g.mutate17(c.X), r)
		}
	case 7, 8:
		c.Mode = "match"
		c.X = g.top(d, true, false)
		if r.chance(0.12) {
			// wide function: many composite parameters (each a temporary of its own inside the
			// unifier, dead as soon as the next parameter is reached) under a dense GC
			// schedule, so that whatever the implementation remembers by raw address meets
			// recycled addresses within ONE call
			if len(g.vars) == 0 {
				g.vars = []string{"a1", "a11"}
			}
			f := &T17{K: "fun", N: "f"}
			n := 6 + r.intn(20)
			uniform := r.chance(0.5) // every parameter of one shape, each with a variable of its own
			w := r.pick([]string{"list", "maybe"})
			for i := 0; i < n; i++ {
				var p *T17
				switch c := r.intn(4); {
				case uniform:
					p = &T17{K: "list", A: []*T17{{K: w, A: []*T17{{K: "var", N: fmt.Sprintf("w%d", i)}}}}}
				case c == 0:
					p = &T17{K: "list", A: []*T17{{K: "list", A: []*T17{{K: "var", N: g.vars[i%len(g.vars)]}}}}}
				case c == 1:
					p = &T17{K: "maybe", A: []*T17{{K: "list", A: []*T17{g.ty(1, true, false)}}}}
				default:
					p = g.ty(2, true, false)
					if !p.composite() {
						p = &T17{K: "list", A: []*T17{p}}
					}
				}
				f.A = append(f.A, p)
			}
			f.A = append(f.A, g.ty(1, true, false))
			c.X = f
			c.GC = "spread"
			c.Wide = true
		}
		gr := g.instantiate(c.X)
		switch r.intn(3) {
		case 0:
			gr = g.mutate17(gr)
		case 1:
			gr = permuteFields(gr, r)
		}
		// mutation may have introduced nothing variable-like; ground stays ground
		c.Y = gr
		c.Flip = r.chance(0.25)
	default:
		if r.chance(0.6) {
			// infer: a polymorphic function type  fun(params...) ret  applied to ground
			// argument types through the exported checker entry point (types.Infer):
			// pattern-vs-ground matching plus application of the substitution
			c.Mode = "infer"
			if len(g.vars) == 0 {
				g.vars = []string{"a1", "a11"}
			}
			if r.chance(0.3) {
				// type parameters named the way people name them (T1, S2): a letter the checker
				// also uses for its own fresh variables, followed by a small number
				g.vars = []string{
					fmt.Sprintf("%s%d", r.pick([]string{"t", "s"}), 1+r.intn(60)),
					fmt.Sprintf("%s%d", r.pick([]string{"t", "s", "a"}), 1+r.intn(60)),
				}
				if g.vars[0] == g.vars[1] {
					g.vars = g.vars[:1]
				}
			}
			f := &T17{K: "fun", N: "f"}
			np := 1 + r.intn(3)
			for i := 0; i < np; i++ {
				f.A = append(f.A, g.ty(1+r.intn(3), true, false))
			}
			// the result mentions the parameters' variables, often two of them in one object
			pv := map[string]bool{}
			for _, a := range f.A {
				a.vars(pv)
			}
			var pvs []string
			for v := range pv {
				pvs = append(pvs, v)
			}
			sort.Strings(pvs)
			saved := g.vars
			if len(pvs) > 0 && r.chance(0.85) {
				g.vars = pvs
			}
			ret := g.ty(1+r.intn(2), true, false)
			if len(pvs) > 0 && r.chance(0.5) {
				o := &T17{K: "obj"}
				for i, n := range []string{"fst", "snd", "trd"}[:2+r.intn(2)] {
					o.F = append(o.F, n)
					if i < len(pvs) || r.chance(0.5) {
						o.A = append(o.A, &T17{K: "var", N: pvs[i%len(pvs)]})
					} else {
						o.A = append(o.A, g.ty(1, true, false))
					}
				}
				ret = o
				if r.chance(0.4) {
					ret = &T17{K: "list", A: []*T17{o}}
				}
			}
			g.vars = saved
			f.A = append(f.A, ret)
			c.X = f
			args := g.instantiate(&T17{K: "tuple", A: f.A[:np]})
			switch r.intn(4) {
			case 0:
				args = g.mutate17(args)
			case 1:
				args = permuteFields(args, r)
			}
			if args.K != "tuple" {
				args = &T17{K: "tuple", A: []*T17{args}}
			}
			c.Y = args
			if r.chance(0.15) {
				c.Aim = r.pick([]string{"t", "s"})
				c.AimJ = r.intn(3)
			}
			if np >= 2 && r.chance(0.35) {
				c.Decoy = 1 + r.intn(2)
				if c.Decoy == 2 && r.chance(0.5) {
					c.Decoy = 1 // before f is where it matters
				}
				if c.Aim == "" {
					c.AimJ = r.intn(3)
				}
			}
		} else if r.chance(0.35) {
			// top (the universal type) absorbs on the LEFT only, at any depth (see nest below)
			c.Mode = "top"
			c.X = &T17{K: "top"}
			c.Y = g.ty(d, false, false)
			c.Flip = r.chance(0.5)
			nest = r.chance(0.6)
		} else {
			// bottom (the empty-container element type) is absorbed on the RIGHT only, at any depth
			c.Mode = "bottom"
			c.X = g.ty(d, false, false)
			c.Y = &T17{K: "bot"}
			c.Flip = r.chance(0.5)
			nest = r.chance(0.6)
		}
	}
	if r.chance(0.4) {
		g.dupChild(c.X)
		if c.Mode == "match" || c.Mode == "unify" && r.chance(0.5) {
			// keep the relation between X and Y meaningful after duplicating
			if c.Mode == "match" {
				c.Y = g.instantiate(c.X)
			}
		}
	}
	if c.Mode == "match" && !c.X.has("fun") && r.chance(0.35) {
		// the variable-free side holds a bottom somewhere: absorbed where it faces a
		// non-variable, while a variable still stands for ONE type. Function types are left
		// out: in parameter position the library substitutes before it unifies, the one place
		// where the two readings of the bottom rule differ on the unchanged tree.
		c.Y = replaceLeaf(c.Y, "bot", r)
		c.BotG, c.Flip = true, false
	}
	if nest && c.Mode == "top" {
		c.X = replaceLeaf(c.Y, "top", r)
	}
	if nest && c.Mode == "bottom" {
		c.Y = replaceLeaf(c.X, "bot", r)
	}
	fixKeys(c.X)
	fixKeys(c.Y)
	fixKeys(c.Z)
	if c.Mode == "equals" {
		c.Z = permuteFields(c.Y, r)
	}
	if c.Share {
		g.markShared(c.X)
		g.markShared(c.Y)
	}
	c.Sim = simrt.Config{Seed: r.u64() | 1, MaxSteps: 400_000, GCAlloc: []int{0, 0, 8}[r.intn(3)]}
	return c
}

// --- execution -----------------------------------------------------------------------

type unifyOut struct {
	Panic string
	OK    bool
	Res   string            // canon of the returned type
	Subst map[string]string // canon of every binding
	raw   map[string]*T17
	resT  *T17
}

func (u unifyOut) summary() string {
	if u.Panic != "" {
		return "panic(" + u.Panic + ")"
	}
	if !u.OK {
		return "fail"
	}
	ks := make([]string, 0, len(u.Subst))
	for k, v := range u.Subst {
		ks = append(ks, k+"="+v)
	}
	sort.Strings(ks)
	return "ok " + u.Res + " {" + strings.Join(ks, ";") + "}"
}

func gcFaults(mode string, steps uint64, seed uint64) []simrt.Fault {
	var fs []simrt.Fault
	switch mode {
	case "dense":
		for s := uint64(1); s <= steps && len(fs) < 60; s += 1 + seed%3 {
			fs = append(fs, simrt.Fault{Step: s, Kind: "gc"})
		}
	case "spread":
		// collections all along the call, not only at its start
		k := steps/(20+seed%40) + 1
		for s := 1 + seed%k; s <= steps && len(fs) < 80; s += k {
			fs = append(fs, simrt.Fault{Step: s, Kind: "gc"})
		}
	case "sparse":
		r := newRng(seed, 17)
		n := 1 + r.intn(6)
		for i := 0; i < n; i++ {
			fs = append(fs, simrt.Fault{Step: 1 + r.u64()%(steps+1), Kind: "gc"})
		}
		sortFaults(fs)
	}
	return fs
}

type case17Result struct {
	Viol   *Violation
	GCs    int
	Steps  uint64
	Calls  int
	Hash   uint64
	NonTrivial bool
}

// run executes f under the no-fault schedule and then under the case's GC schedule.
func underGC(c *Case17, res *case17Result, f func() string) (string, string, bool) {
	cfg := c.Sim
	cfg.Faults = nil
	var base string
	r0 := simrt.Run(cfg, func() { base = f() })
	if p := r0.TaskPanics[0]; p != nil {
		if simrt.IsAbort(p) {
			return "nontermination", "nontermination", false
		}
		harnessFatal("c17: %v", p)
	}
	res.Steps += r0.Steps
	res.Calls++
	if c.GC == "none" {
		return base, base, false
	}
	cfg.Faults = gcFaults(c.GC, r0.Steps, c.Sim.Seed)
	var under string
	r1 := simrt.Run(cfg, func() { under = f() })
	if p := r1.TaskPanics[0]; p != nil {
		if simrt.IsAbort(p) {
			return base, "nontermination", true
		}
		harnessFatal("c17: %v", p)
	}
	res.GCs += r1.FaultsFired["gc"]
	res.Steps += r1.Steps
	res.Calls++
	res.Hash = r1.Hash
	return base, under, true
}

func safeCall(f func() string) (out string) {
	defer func() {
		if r := recover(); r != nil {
			if simrt.IsAbort(r) {
				panic(r)
			}
			out = fmt.Sprintf("panic(%v)", r)
		}
	}()
	return f()
}

func doUnify(x, y *types.Type) (o unifyOut) {
	defer func() {
		if r := recover(); r != nil {
			if simrt.IsAbort(r) {
				panic(r)
			}
			o = unifyOut{Panic: fmt.Sprint(r)}
		}
	}()
	defer func() {
		// A variable used as a map key that would have to be bound to a non-keyable
		// type has no unifier inside the type language; yae signals this through the
		// map constructor's assertion instead of a nil result. That is a failed
		// unification (the laws constrain successes), not a fault of Unify.
		if r := recover(); r != nil {
			if msg := fmt.Sprint(r); strings.HasPrefix(msg, "invalid type of map's key") {
				o = unifyOut{}
				return
			}
			panic(r)
		}
	}()
	m := map[string]*types.Type{}
	u := types.Unify(x, y, m)
	if u == nil {
		return unifyOut{}
	}
	o.OK = true
	o.resT = fromYae(u, 0)
	o.Res = o.resT.canon()
	o.Subst = map[string]string{}
	o.raw = map[string]*T17{}
	for k, v := range m {
		t := fromYae(v, 0)
		o.raw[k] = t
		o.Subst[k] = t.canon()
	}
	return o
}

// paramSlices: per case, the parameter slices handed to types.Fun (see build).
var paramSlices map[string][]*types.Type

func runCase17(c *Case17) case17Result {
	var res case17Result
	paramSlices = map[string][]*types.Type{}
	res.NonTrivial = (c.X.composite() || c.Y.composite()) && (c.X.hasVar() || c.Y.hasVar())
	fail := func(kind, sig, detail string) case17Result {
		res.Viol = &Violation{kind, sig, detail + fmt.Sprintf("\n x = %s\n y = %s\n share=%v gc=%s", c.X.canon(), c.Y.canon(), c.Share, c.GC)}
		return res
	}
	mk := func(t *T17) *types.Type { return t.build(map[int]*types.Type{}, c.Share) }
	switch c.Mode {
	case "equals":
		want := c.X.canon() == c.Y.canon()
		base, under, _ := underGC(c, &res, func() string {
			return safeCall(func() string {
				x, y, z := mk(c.X), mk(c.Y), mk(c.Z)
				xy, yx := types.Equals(x, y), types.Equals(y, x)
				xx := types.Equals(x, mk(c.X)) // deep copy
				yz, xz := types.Equals(y, z), types.Equals(x, z)
				return fmt.Sprintf("xy=%v yx=%v xx=%v yz=%v xz=%v", xy, yx, xx, yz, xz)
			})
		})
		exp := fmt.Sprintf("xy=%v yx=%v xx=%v yz=%v xz=%v", want, want, true, true, want)
		for _, got := range []string{base, under} {
			if got == "nontermination" {
				return fail("nontermination", "c17:equals-nontermination", fmt.Sprintf("types.Equals did not return within %d simulated steps", c.Sim.MaxSteps))
			}
			if strings.HasPrefix(got, "panic") {
				return fail("panic", "c17:equals-panic", "types.Equals panicked: "+got)
			}
			if got != exp {
				return fail("law", "c17:equals-law", fmt.Sprintf("Equals is not the structural identity / not an equivalence: got %s, want %s (z = field-permuted y)", got, exp))
			}
		}
	case "infer":
		f := c.X
		np := len(f.A) - 1
		if !f.hasVar() {
			return res // monomorphic functions are resolved by signature text, not by unification
		}
		var want string
		th := map[string]string{}
		thT := map[string]*T17{}
		ok := len(c.Y.A) == np
		if ok {
			ok = refMatchT(&T17{K: "tuple", A: f.A[:np]}, c.Y, th, thT)
		}
		if ok {
			r := applyOnce(f.A[np], thT)
			if r.hasVar() || !keysValid(r) {
				ok = false // result not concrete, or a map key would have to be a non-primitive type
			} else {
				want = "ok " + r.canon()
			}
		}
		if !ok {
			want = "error"
		}
		base, under, _ := underGC(c, &res, func() string {
			return safeCall(func() string {
				env := types.NewEnv()
				f := f
				if c.Aim != "" {
					// fresh variables are <prefix><value of a process-wide counter>; the checker
					// draws one for the overload key, one "s" per argument, then "t"
					var id int
					if _, err := fmt.Sscanf(types.TyVar("probe").TyVar().Name, "probe%d", &id); err == nil {
						pv := map[string]bool{}
						f.vars(pv)
						var names []string
						for v := range pv {
							names = append(names, v)
						}
						sort.Strings(names)
						n := len(c.Y.A)
						target := fmt.Sprintf("t%d", id+n+2)
						if c.Aim == "s" && n > 0 {
							target = fmt.Sprintf("s%d", id+2+c.AimJ%n)
						}
						if len(names) > 0 && !pv[target] {
							f = renameVar(f, names[c.AimJ%len(names)], target)
						}
					}
				}
				var decoy *T17
				if c.Decoy != 0 && np >= 2 {
					// a second overload of the same name and arity, written with the SAME type
					// variables (people reuse one `a` for a family of signatures): its first
					// parameter is a bare variable, so it binds before it fails on the last
					// parameter, which no argument matches. What a rejected candidate bound
					// must not constrain the next candidate.
					pv := map[string]bool{}
					(&T17{K: "tuple", A: f.A[:np]}).vars(pv)
					// not a variable that also stands in map-key position: bound to the whole first
					// argument it would make the library build a map type with a composite key,
					// which panics inside the substitution instead of failing the candidate and
					// ends the whole overload resolution (DESIGN.md section 8 / observation D13)
					kv := map[string]bool{}
					keyVars(&T17{K: "tuple", A: f.A[:np]}, kv)
					var names []string
					for v := range pv {
						if !kv[v] {
							names = append(names, v)
						}
					}
					sort.Strings(names)
					if len(names) > 0 {
						decoy = &T17{K: "fun", N: "f"}
						decoy.A = append(decoy.A, &T17{K: "var", N: names[c.AimJ%len(names)]})
						for _, a := range f.A[1 : np-1] {
							decoy.A = append(decoy.A, a.clone())
						}
						decoy.A = append(decoy.A, &T17{K: "obj", F: []string{"decoy__"}, A: []*T17{{K: "num"}}}, &T17{K: "num"})
					}
				}
				if decoy != nil && c.Decoy == 1 {
					env.RegisterFun(mk(decoy))
				}
				env.RegisterFun(mk(f))
				if decoy != nil && c.Decoy == 2 {
					env.RegisterFun(mk(decoy))
				}
				var args []ast.Expr
				for i, a := range c.Y.A {
					name := fmt.Sprintf("x%d", i)
					env.Put(name, mk(a))
					args = append(args, ast.Var(name, pos.Unknown))
				}
				call := ast.Call(ast.Var("f", pos.Unknown), args, pos.UnknownCol, pos.Unknown)
				ty, err := types.Infer(call, env)
				if err != nil {
					return "error"
				}
				return "ok " + fromYae(ty, 0).canon()
			})
		})
		for _, got := range []string{base, under} {
			if got == "nontermination" {
				return fail("nontermination", "c17:infer-nontermination", "types.Infer did not return within the step cap")
			}
			if got != want {
				return fail("law", "c17:infer-"+firstWord(got)+"-want-"+firstWord(want),
					fmt.Sprintf("applying the polymorphic function type %s to argument types %s: checker says %q, reference matcher + substitution says %q", f.canon(), c.Y.canon(), got, want))
			}
		}
	case "unify", "match", "bottom", "top":
		xs, ys := c.X, c.Y
		if c.Flip {
			xs, ys = c.Y, c.X
		}
		var outs [2]unifyOut
		i := 0
		base, under, _ := underGC(c, &res, func() string {
			o := doUnify(mk(xs), mk(ys))
			if i < 2 {
				outs[i] = o
			}
			i++
			return o.summary()
		})
		if base == "nontermination" || under == "nontermination" {
			return fail("nontermination", "c17:unify-nontermination", fmt.Sprintf("types.Unify did not return within %d simulated steps on finite, non-recursive types", c.Sim.MaxSteps))
		}
		if base != under {
			return fail("gc", "c17:unify-gc-divergence:"+panicClass(under),
				fmt.Sprintf("the same Unify call gives different results depending on when the collector runs:\n no GC : %s\n with GC: %s", base, under))
		}
		o := outs[0]
		if o.Panic != "" {
			return fail("panic", "c17:unify-panic:"+panicClass(o.summary()), "types.Unify panicked on non-recursive types: "+o.Panic)
		}
		switch c.Mode {
		case "unify":
			if o.OK {
				sx, okx := applyFix(xs, o.raw)
				sy, oky := applyFix(ys, o.raw)
				if !okx || !oky {
					return fail("law", "c17:unify-cyclic-substitution", "the substitution does not reach a fixpoint: "+o.summary())
				}
				for v, t := range o.raw {
					ft, _ := applyFix(t, o.raw)
					vs := map[string]bool{}
					ft.vars(vs)
					if vs[v] && !(ft.K == "var" && ft.N == v) {
						return fail("law", "c17:unify-occurs", fmt.Sprintf("variable %s is bound to a type containing itself: %s", v, o.summary()))
					}
				}
				if o.resT != nil {
					if su, oku := applyFix(o.resT, o.raw); oku && su.canon() != sx.canon() {
						return fail("law", "c17:unify-wrong-unifier", fmt.Sprintf("Unify succeeded but the type it returned, %s, is not the unified left-hand side s(x) = %s (subst %s)", su.canon(), sx.canon(), o.summary()))
					}
				}
				if !compat(sx, sy) {
					return fail("law", "c17:unify-unsound", fmt.Sprintf("Unify succeeded but the substitution does not make the two sides equal:\n subst: %s\n s(x) = %s\n s(y) = %s", o.summary(), sx.canon(), sy.canon()))
				}
			}
		case "match":
			pat, gr := c.X, c.Y
			want := refMatch(pat, gr, map[string]string{})
			if o.OK != want {
				return fail("law", fmt.Sprintf("c17:match-%v-want-%v", o.OK, want),
					fmt.Sprintf("pattern vs variable-free type: Unify %s but an instantiation %s (flip=%v)", okWord(o.OK), existsWord(want), c.Flip))
			}
			if c.BotG {
				break // the unifier is the pattern side: not the ground type where that holds a bottom
			}
			if o.OK && o.Res != gr.canon() {
				return fail("law", "c17:match-wrong-unifier", fmt.Sprintf("Unify succeeded but returned the type %s, not the matched variable-free type", o.Res))
			}
			if o.OK {
				sp, _ := applyFix(pat, o.raw)
				if sp.canon() != gr.canon() {
					return fail("law", "c17:match-wrong-instantiation", fmt.Sprintf("Unify succeeded but s(pattern) = %s is not the matched type; subst %s", sp.canon(), o.summary()))
				}
			}
		case "top":
			want := !c.Flip
			if o.OK != want {
				return fail("law", fmt.Sprintf("c17:top-%v-want-%v", o.OK, want),
					fmt.Sprintf("Unify(%s, %s) %s; the universal type may only absorb on the left", xs.canon(), ys.canon(), okWord(o.OK)))
			}
		case "bottom":
			// bottom (the empty-container element type) unifies on the right only
			want := !c.Flip
			if o.OK != want {
				return fail("law", fmt.Sprintf("c17:bottom-%v-want-%v", o.OK, want),
					fmt.Sprintf("Unify(%s, %s) %s; the empty-container element type may only appear on the right", xs.canon(), ys.canon(), okWord(o.OK)))
			}
		}
	}
	return res
}

// keysValid: every map key is a primitive type (the type language's rule).
func keysValid(t *T17) bool {
	if t.K == "map" {
		switch t.A[0].K {
		case "num", "str", "bool", "time":
		default:
			return false
		}
	}
	for _, a := range t.A {
		if !keysValid(a) {
			return false
		}
	}
	return true
}

func firstWord(s string) string {
	if i := strings.IndexByte(s, ' '); i > 0 {
		return s[:i]
	}
	if strings.HasPrefix(s, "panic") {
		return "panic"
	}
	return s
}

// refMatchT is refMatch that also records the instantiation as terms.
func refMatchT(p, g *T17, th map[string]string, thT map[string]*T17) bool {
	if p.K == "var" {
		c := g.canon()
		if old, ok := th[p.N]; ok {
			return old == c
		}
		th[p.N] = c
		thT[p.N] = g
		return true
	}
	if p.K != g.K || len(p.A) != len(g.A) {
		return false
	}
	if p.K == "obj" {
		for i, n := range p.F {
			j := -1
			for k, m := range g.F {
				if m == n {
					j = k
				}
			}
			if j < 0 || !refMatchT(p.A[i], g.A[j], th, thT) {
				return false
			}
		}
		return true
	}
	for i := range p.A {
		if !refMatchT(p.A[i], g.A[i], th, thT) {
			return false
		}
	}
	return true
}

func okWord(b bool) string {
	if b {
		return "succeeded"
	}
	return "failed"
}
func existsWord(b bool) string {
	if b {
		return "exists"
	}
	return "does not exist"
}

func panicClass(s string) string {
	switch {
	case strings.Contains(s, "recursive"):
		return "recursive-type"
	case strings.Contains(s, "panic"):
		return "other-panic"
	}
	return "result"
}

// ---------------------------------------------------------------------------

type c17 struct{}

func init() { drivers["C17"] = c17{} }

func (c17) ID() string           { return "C17" }
func (c17) NeedsTZ() bool        { return false }
func (c17) BatchSize(string) int { return 400 }
func (c17) Rule() string {
	return "a case is one law instance: (equals) x, a mutated / field-permuted / deep-copied y and a permuted z: Equals must be the structural identity (fields by name) and an equivalence; " +
		"(unify) two types over primitives, <=3 repeated variables, list/map/object/function/optional, tuples outermost, bottom inside containers: on success the substitution applied to fixpoint makes both sides equal modulo the bottom-right/top-left rule, no occurs violation; " +
		"(match) pattern vs a ground instantiation or a mutation of it, in both argument orders: success <=> the reference one-way matcher finds an instantiation, and the substitution yields exactly the ground type; " +
		"(bottom) the empty-container element type unifies on the right only. Sub-terms are shared by pointer or deep-copied (knob). " +
		"Every call runs under a fault-free schedule and again under an injected GC schedule (dense: every 1-3 yields; sparse: 1-6 PRNG-chosen yields): same result, no panic. " +
		"evaluations = cases; non-trivial = a composite type containing a variable is involved; distinct = distinct (structure of the pair, mode, GC schedule) hashes"
}
func (c17) Assumptions() []string {
	return []string{
		"depth <= 4, width <= 3, <= 3 variables; tuples only outermost; recursive (cyclic) types are not generated",
		"GC instants are simulator-chosen and replayable; which address the allocator reuses is not, so a GC-dependent failure may not replay in a fresh process (it is reported nevertheless)",
		"the reference matcher decides patterns against variable-free, bottom-free types only; for general pairs only soundness of a successful unification is checked, not completeness",
		"sampling, not enumeration",
	}
}
func (c17) Components() map[string][]string {
	return map[string][]string{
		"real":      {"package types (instrumented source): Unify, Equals, applySubst, freeFrom, constructors", "package util (PtrPtrSet)", "Go runtime allocator / GC"},
		"simulated": {"moment of GC (fault at yield points inside Unify / Equals)"},
		"stub":      {},
	}
}

type c17CaseFile struct {
	Case *Case17 `json:"case17"`
}

func (c17) Batch(seed uint64, wid, batch, count int, deadline time.Time, emit func(*Record)) {
	// the checker's fresh variables are a prefix plus the value of a process-wide counter: move
	// the counter past the small numbers people put in their own type-parameter names
	for i := 0; i < 300; i++ {
		types.TyVar("burn")
	}
	rec := &Record{T: "batch", Counts: map[string]int64{}}
	hset := map[uint64]struct{}{}
	for i := 0; i < count; i++ {
		if time.Now().After(deadline) {
			break
		}
		emit(&Record{T: "start", Runs: i})
		c := case17For(seed, wid, batch, i, nWorkers())
		res := runCase17(c)
		tick()
		if c.Sweep {
			rec.Counts["sweep_cases"]++
			if i == count-2 {
				// the batch's whole slice of the sweep has been walked
				rec.Counts[fmt.Sprintf("sweep_full_batches_w%02d", wid)]++
			}
		}
		if wid == 0 && batch == 0 && i == 0 {
			rec.Counts["sweep_cases_in_one_full_pass"] = int64(sweepTotal())
			rec.Counts["sweep_universe_types"] = int64(len(sweepUniverse()))
		}
		if i%64 == 63 {
			runtime.GC()
		}
		traceRun(i, res.Hash, res.Steps, fmt.Sprint(res.Viol != nil, res.GCs, c.Mode))
		rec.Runs++
		cn := rec.Counts
		cn["mode_"+c.Mode]++
		cn["gc_schedule_"+c.GC]++
		cn["fault_gc_fired"] += int64(res.GCs)
		cn["api_calls_groups"] += int64(res.Calls)
		cn["steps"] += int64(res.Steps)
		if c.Cross {
			cn["equals_crossing_dag_cases"]++
		}
		if c.Chain {
			cn["unify_alias_chain_cases"]++
		}
		if c.Wide {
			cn["match_wide_function_cases"]++
		}
		if c.Decoy != 0 {
			cn["infer_decoy_overload_cases"]++
		}
		if c.Share {
			cn["shared_subterm_cases"]++
		}
		if res.NonTrivial {
			hset[fnv64(c.Mode+"|"+c.X.canon()+"|"+c.Y.canon()+"|"+c.GC+fmt.Sprint(c.Share, c.Flip))] = struct{}{}
			if len(rec.Samples) == 0 && c.GC != "none" {
				smp, _ := json.Marshal(map[string]interface{}{"mode": c.Mode, "x": c.X.canon(), "y": c.Y.canon(), "share": c.Share, "gc": c.GC, "gcs_fired": res.GCs})
				rec.Samples = append(rec.Samples, smp)
			}
		}
		if res.Viol != nil {
			cs, _ := json.Marshal(c17CaseFile{c})
			rf := &ReplayFile{Case: cs, TZ: tzEnv()}
			if i > 0 && res.Viol.Kind == "gc" {
				rf.Prefix = &Prefix{seed, wid, batch, i, nWorkers()}
			}
			emit(&Record{T: "viol", Viol: res.Viol, Replay: rf})
		}
	}
	for h := range hset {
		rec.Hashes = append(rec.Hashes, h)
	}
	emit(rec)
}

func (c17) GenCase(seed uint64, wid, batch, i int) json.RawMessage {
	b, _ := json.Marshal(c17CaseFile{case17For(seed, wid, batch, i, nWorkers())})
	return b
}

func (c17) Replay(rf *ReplayFile) *Violation {
	var cs c17CaseFile
	if err := json.Unmarshal(rf.Case, &cs); err != nil {
		harnessFatal("replay case: %v", err)
	}
	if p := rf.Prefix; p != nil {
		nw := p.NW
		if nw == 0 {
			nw = nWorkers()
		}
		for i := 0; i < p.Count; i++ {
			runCase17(case17For(p.Seed, p.Wid, p.Batch, i, nw))
			if i%64 == 63 {
				runtime.GC()
			}
		}
	}
	return runCase17(cs.Case).Viol
}

func (c17) Candidates(rf *ReplayFile) []*ReplayFile {
	var cs c17CaseFile
	if json.Unmarshal(rf.Case, &cs) != nil {
		return nil
	}
	c := cs.Case
	var out []*ReplayFile
	mk := func(n *Case17) {
		b, _ := json.Marshal(c17CaseFile{n})
		out = append(out, &ReplayFile{Case: b, Prefix: rf.Prefix})
	}
	clone := func() *Case17 {
		var n Case17
		b, _ := json.Marshal(c)
		json.Unmarshal(b, &n)
		return &n
	}
	if c.GC != "none" {
		n := clone()
		n.GC = "none"
		mk(n)
	}
	if c.Share {
		n := clone()
		n.Share = false
		mk(n)
	}
	// the same structural simplification on both sides at once (keeps x and y related)
	{
		var paths [][]int
		var walk func(a, b *T17, p []int)
		walk = func(a, b *T17, p []int) {
			if len(p) > 0 {
				paths = append(paths, append([]int(nil), p...))
			}
			if a.K != b.K || len(a.A) != len(b.A) || a.K == "obj" {
				return
			}
			for i := range a.A {
				walk(a.A[i], b.A[i], append(p, i))
			}
		}
		walk(c.X, c.Y, nil)
		at := func(r *T17, p []int) (*T17, int) {
			cur := r
			for _, i := range p[:len(p)-1] {
				cur = cur.A[i]
			}
			return cur, p[len(p)-1]
		}
		for _, p := range paths {
			n := clone()
			px, ix := at(n.X, p)
			py, iy := at(n.Y, p)
			if px.K == "map" && ix == 0 {
				continue
			}
			if px.A[ix].composite() || py.A[iy].composite() {
				if px.A[ix].canon() == py.A[iy].canon() {
					px.A[ix], py.A[iy] = &T17{K: "num"}, &T17{K: "num"}
					mk(n)
				}
			}
			// drop the same member of a tuple on both sides
			if px.K == "tuple" && py.K == "tuple" && len(px.A) > 1 && len(px.A) == len(py.A) {
				n2 := clone()
				qx, jx := at(n2.X, p)
				qy, jy := at(n2.Y, p)
				qx.A = append(qx.A[:jx], qx.A[jx+1:]...)
				qy.A = append(qy.A[:jy], qy.A[jy+1:]...)
				mk(n2)
			}
		}
	}
	// replace a sub-term by a primitive / hoist a child, on x and on y
	for side := 0; side < 2; side++ {
		root := c.X
		if side == 1 {
			root = c.Y
		}
		var paths [][]int
		var walk func(t *T17, p []int)
		walk = func(t *T17, p []int) {
			if len(p) > 0 {
				paths = append(paths, append([]int(nil), p...))
			}
			for i, a := range t.A {
				walk(a, append(p, i))
			}
		}
		walk(root, nil)
		for _, p := range paths {
			n := clone()
			r := n.X
			if side == 1 {
				r = n.Y
			}
			cur := r
			for _, i := range p[:len(p)-1] {
				cur = cur.A[i]
			}
			ch := cur.A[p[len(p)-1]]
			if ch.composite() {
				cur.A[p[len(p)-1]] = &T17{K: "num"}
				if cur.K == "map" && p[len(p)-1] == 0 {
					continue
				}
				mk(n)
			}
		}
		// drop a member of a tuple / object / function
		for _, p := range append([][]int{{}}, paths...) {
			n := clone()
			r := n.X
			if side == 1 {
				r = n.Y
			}
			cur := r
			for _, i := range p {
				cur = cur.A[i]
			}
			if (cur.K == "tuple" || cur.K == "obj") && len(cur.A) > 1 {
				cur.A = cur.A[:len(cur.A)-1]
				if cur.K == "obj" {
					cur.F = cur.F[:len(cur.F)-1]
				}
				mk(n)
			}
		}
	}
	return out
}
